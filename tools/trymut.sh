#!/bin/bash
# tools/trymut.sh <patch.diff> <ID> [quick|thorough] [extra check args]  — apply a seeded change to /repo, run the check, undo.
set -u
patch="$1"; id="$2"; tier="${3:-quick}"; shift 3 2>/dev/null || shift $#
cd /verif
if ! git -C /repo diff --quiet; then echo "repo has uncommitted changes"; exit 2; fi
patch="$(realpath "$patch")"
git -C /repo apply "$patch" 2>/dev/null || git -C /repo apply -C1 "$patch" || { echo "patch does not apply"; exit 2; }
./check "$id" "$tier" "$@"; rc=$?
git -C /repo checkout -- . 
echo "exit=$rc"
exit $rc
