#!/bin/bash
# tools/trymut.sh <patch.diff> <ID> [quick|thorough] [extra check args]
# Tries a seeded change without touching /repo: copies /repo's working tree to a scratch directory,
# applies the patch there and runs the check against the copy (VERIF_REPO), with its own build
# directory and its own evidence/replay directory. Everything is removed afterwards.
set -u
patch="$(realpath "$1")"; id="$2"; tier="${3:-quick}"; shift 3 2>/dev/null || shift $#
tmp=$(mktemp -d /tmp/vfmut.XXXXXX)
trap 'rm -rf "$tmp"' EXIT
mkdir -p "$tmp/repo"
rsync -a --exclude .git /repo/ "$tmp/repo/"
( cd "$tmp/repo" && { git apply "$patch" 2>/dev/null || git apply -C1 "$patch"; } ) || { echo "patch does not apply"; exit 2; }
cd /verif
VERIF_REPO="$tmp/repo" VERIF_BUILD="$tmp/build" VERIF_OUTDIR="$tmp/out" ./check "$id" "$tier" "$@"; rc=$?
if [ -d "$tmp/out/replays" ]; then mkdir -p /verif/replays/mut; cp "$tmp"/out/replays/*.json /verif/replays/mut/ 2>/dev/null; fi
echo "exit=$rc"
exit $rc
