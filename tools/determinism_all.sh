#!/bin/bash
# tools/determinism_all.sh — the determinism self-test for every check: N seeds x R fresh processes at
# GOMAXPROCS 1/4/16, identical event-log hash expected. Exact-replay checks must show 0 diverged seeds;
# for decision-exact checks the number says how often a whole-PeerConnection run is not bit-reproducible.
cd /verif
out=evidence/determinism.txt
echo "# $(date -u +%FT%TZ) determinism self-test (seeds x processes): diverged seeds" > $out.tmp
for id in C05 C27 C29 C31 C34 C37; do ./check determinism $id 200 6 2>&1 | grep "^determinism" | sed 's/^/exact          /' >> $out.tmp; done
for id in C11 C22 C24 C18 C20 C19 C13 C14 C23 C26 C21 C30 C01 C04 C06 C12 C39; do ./check determinism $id 64 3 2>&1 | grep "^determinism" | sed 's/^/decision-exact /' >> $out.tmp; done
mv $out.tmp $out; cat $out
