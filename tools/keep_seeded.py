#!/usr/bin/env python3
"""keep_seeded.py <name> <property> <src dir with patch.diff, demo test, notes.md> <caught_by text> [--patch other.diff] [--note text]
Copies a confirmed seeded change into /verif/seeded/<name>/ with meta.json."""
import json, os, shutil, sys
name, prop, src, caught = sys.argv[1:5]
extra = sys.argv[5:]
dst = os.path.join('/verif/seeded', name)
os.makedirs(dst, exist_ok=True)
for f in os.listdir(src):
    if f.endswith('.go') or f in ('patch.diff', 'notes.md'):
        if f == 'patch.diff' and os.path.exists(os.path.join(dst, 'patch.diff')) and '--keep-patch' in extra:
            shutil.copy(os.path.join(src, f), os.path.join(dst, 'original_patch.diff'))
            continue
        shutil.copy(os.path.join(src, f), os.path.join(dst, f if not f.endswith('_test.go') else 'demo_' + f.replace('_test.go', '_test.go.txt')))
note = ''
if '--note' in extra:
    note = extra[extra.index('--note') + 1]
notes = open(os.path.join(src, 'notes.md')).read() if os.path.exists(os.path.join(src, 'notes.md')) else ''
meta = {"name": name, "property": prop, "origin": "independent sub-agent given only the property text and a scratch worktree",
        "needs_to_manifest": notes[:1500], "caught_by": caught, "note": note,
        "confirmed": "see confirm.log (tools/verify_seeded.sh: demo passes on clean tree, fails with patch, package tests pass with patch)"}
json.dump(meta, open(os.path.join(dst, 'meta.json'), 'w'), indent=1)
print('kept', dst)
