#!/bin/bash
# tools/confirm_list.sh <names...>: confirms the given seeded changes one after the other
# (demo passes on the clean tree, fails with the patch, the package's own tests pass with the patch).
cd /verif
for n in "$@"; do
  d=seeded/$n
  grep -q '^CONFIRMED' $d/confirm.log 2>/dev/null && continue
  demo=$(ls $d/demo_*.go.txt 2>/dev/null | head -1); [ -z "$demo" ] && { echo "$n: no demo"; continue; }
  pkg=$(dirname $(grep -m1 '^+++ b/' $d/patch.diff | sed 's|^+++ b/||'))
  tools/verify_seeded.sh $d/patch.diff $demo "$pkg" > $d/confirm.log.tmp 2>&1
  mv $d/confirm.log.tmp $d/confirm.log
  echo "$n: $(tail -1 $d/confirm.log)"
done
