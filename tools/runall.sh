#!/bin/bash
# tools/runall.sh [quick|thorough] [ids...] — run every claimed check of MANIFEST.json, print one summary line each
cd /verif; tier="${1:-quick}"; shift
ids="$@"; [ -z "$ids" ] && ids=$(jq -r '.checks[].property_id' MANIFEST.json)
for id in $ids; do
  out=$(./check $id $tier 2>&1); rc=$?
  echo "$id rc=$rc $(echo "$out" | tail -1)"
  echo "$out" | grep -E "^(VIOLATION|KNOWN-FINDING|STUCK|HARNESS-ERROR)" | cut -c1-260
done
