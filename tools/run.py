#!/usr/bin/env python3
"""Driver for the deterministic-simulation checks.

  run.py build [--race]
  run.py check <ID> <quick|thorough> [--runs N] [--workers N]
  run.py replay <ID> <replay-file>

Exit codes: 0 property held on everything explored (KNOWN-FINDING lines possible),
1 violation (prints "VIOLATION property=<id> replay=<path>"), 2 machinery trouble.
"""
import copy
import re
import fcntl
import hashlib
import json
import os
import shutil
import subprocess
import sys
import time

VERIF = os.path.dirname(os.path.dirname(os.path.abspath(__file__)))
REPO = os.environ.get("VERIF_REPO", "/repo")
BUILD = os.environ.get("VERIF_BUILD") or os.path.join(VERIF, "build")
# evidence/ and replays/ go here (a scratch directory when a seeded change is tried on a copy of /repo)
OUTDIR = os.environ.get("VERIF_OUTDIR") or VERIF
GO = os.environ.get("VERIF_GO", "go1.26.8")
NCPU = os.cpu_count() or 4

ENV = dict(os.environ)
ENV.update({"GOFLAGS": "-mod=mod", "GOPROXY": "off", "GOSUMDB": "off", "GOTOOLCHAIN": "local",
            "GONOSUMDB": "*", "GONOSUMCHECK": "1", "GOFLAGS_": ""})

# runs per tier: (quick, thorough); per-run watchdog seconds; worker GOMAXPROCS
PLAN = {
    "C05": dict(quick=20000, thorough=1500000, timeout=60),
    "C27": dict(quick=20000, thorough=1000000, timeout=60),
    "C24": dict(quick=3000, thorough=200000, timeout=60),
    "C19": dict(quick=480, thorough=12000, timeout=300),
    "C29": dict(quick=10000, thorough=400000, timeout=90),
    "C18": dict(quick=1600, thorough=40000, timeout=240), "C20": dict(quick=2400, thorough=60000, timeout=240),
    "C21": dict(quick=320, thorough=30000, timeout=300, extra=[("C21D", dict(quick=400, thorough=30000, timeout=300))]),
    # C40 = race-detector batch (C40) + cooperative-scheduler batch of the same programs (C40D)
    "C40": dict(quick=160, thorough=6000, timeout=180, race=True, gomaxprocs=4, workers=8,
                extra=[("C40D", dict(quick=240, thorough=30000, timeout=300))]),
    "C30": dict(quick=1600, thorough=200000, timeout=240),
    "C22": dict(quick=6000, thorough=300000, timeout=90),
    "C11": dict(quick=1500, thorough=60000, timeout=90),
    "C01": dict(quick=480, thorough=30000, timeout=180), "C02": dict(quick=480, thorough=30000, timeout=180),
    "C03": dict(quick=480, thorough=30000, timeout=180, extra=[("C03C", dict(quick=1200, thorough=60000, timeout=120))]), "C04": dict(quick=640, thorough=15000, timeout=180),
    "C06": dict(quick=2400, thorough=30000, timeout=180), "C07": dict(quick=640, thorough=20000, timeout=180),
    "C08": dict(quick=640, thorough=20000, timeout=180), "C09": dict(quick=640, thorough=15000, timeout=180),
    "C10": dict(quick=640, thorough=20000, timeout=180), "C12": dict(quick=640, thorough=20000, timeout=180),
    "C16": dict(quick=640, thorough=20000, timeout=180), "C39": dict(quick=480, thorough=20000, timeout=180),
    "C13": dict(quick=192, thorough=4800, timeout=240, space=48), "C14": dict(quick=160, thorough=8000, timeout=240),
    "C23": dict(quick=160, thorough=8000, timeout=240), "C26": dict(quick=160, thorough=8000, timeout=240, extra=[("C26S", dict(quick=120, thorough=6000, timeout=240))]),
    "C34": dict(quick=20000, thorough=1000000, timeout=60),
    # (a corrupt IVF frame header makes ivfreader allocate up to 4 GiB per frame; cheap on an idle machine,
    # slow when many workers do it at once: fewer workers, generous watchdog)
    "C37": dict(quick=5000, thorough=500000, timeout=900, workers=8),
    "C31": dict(quick=8000, thorough=600000, timeout=60),
}
DEFAULT_PLAN = dict(quick=200, thorough=5000, timeout=120)


def die(msg, code=2):
    print("ERROR:", msg, file=sys.stderr)
    sys.exit(code)


def sh(cmd, **kw):
    return subprocess.run(cmd, env=ENV, **kw)


def tree_hash(race):
    h = hashlib.sha256()
    roots = [(REPO, False), (os.path.join(REPO, "internal"), True), (os.path.join(REPO, "pkg"), True),
             (os.path.join(VERIF, "harness"), True), (os.path.join(VERIF, "sim"), True)]
    for root, rec in roots:
        if rec:
            it = os.walk(root)
        else:
            it = [(root, [], os.listdir(root))]
        for d, dirs, files in it:
            dirs.sort()
            for f in sorted(files):
                if f.endswith(".go") or f in ("go.mod", "go.sum"):
                    p = os.path.join(d, f)
                    if os.path.isfile(p):
                        h.update(p.encode())
                        with open(p, "rb") as fh:
                            h.update(fh.read())
    h.update(b"race" if race else b"norace")
    return h.hexdigest()


def gen_shims():
    """Harness shims whose body is copied from the tree under test, so that a component simulation
    performs exactly the statement the real (not simulatable) call site performs.

    vfGenAfterDTLSStart: the connection-state update startTransports does right after
    DTLSTransport.Start returned (C22 delivers DTLS state changes without a real handshake)."""
    import re
    src = open(os.path.join(REPO, "peerconnection.go")).read()
    stmt = None
    m = re.search(r"func \(pc \*PeerConnection\) startTransports\(.*?\n}\n", src, re.S)
    if m:
        body = m.group(0)
        m2 = re.search(r"pc\.dtlsTransport\.Start\(DTLSParameters\{.*?\n\t\}\)\n((?:\t[^\n]*\n)*?)\tif err != nil", body, re.S)
        if m2:
            lines = [l.strip() for l in m2.group(1).splitlines() if l.strip() and not l.strip().startswith("//")]
            if lines and all("(" in l and "=" not in l.split("(")[0] for l in lines):
                stmt = "\n\t".join(lines)
    note = "copied from startTransports"
    if stmt is None:
        stmt = "pc.updateConnectionState(pc.ICEConnectionState(), pc.dtlsTransport.State())"
        note = "FALLBACK: statement after dtlsTransport.Start not recognised in startTransports"
        sys.stderr.write("gen_shims: " + note + "\n")
    return ("//go:build !js\n\npackage webrtc\n\n// Code generated by /verif/tools/run.py; %s.\n"
            "func vfGenAfterDTLSStart(pc *PeerConnection) {\n\t%s\n}\n" % (note, stmt))


def build(race=False):
    """Instrument the current /repo tree into an overlay and build the worker binary."""
    os.makedirs(BUILD, exist_ok=True)
    name = "webrtc-race.test" if race else "webrtc.test"
    binp = os.path.join(BUILD, name)
    lock = open(os.path.join(BUILD, ".lock"), "w")
    fcntl.flock(lock, fcntl.LOCK_EX)
    try:
        th = tree_hash(race)
        stamp = binp + ".hash"
        if os.path.exists(binp) and os.path.exists(stamp) and open(stamp).read() == th:
            return binp
        t0 = time.time()
        bindir = os.path.join(BUILD, "bin")
        os.makedirs(bindir, exist_ok=True)
        r = sh([GO, "build", "-o", os.path.join(bindir, "instr"), "./cmd/instr"], cwd=os.path.join(VERIF, "sim"))
        if r.returncode != 0:
            die("building the instrumenter failed")
        ov = os.path.join(BUILD, "ov-race" if race else "ov")
        shutil.rmtree(ov, ignore_errors=True)
        os.makedirs(ov)
        cmd = [os.path.join(bindir, "instr"), "-out", ov]
        # drop the repository's own test files of the root package from the build (overlay delete)
        for f in sorted(os.listdir(REPO)):
            if f.endswith("_test.go"):
                cmd += ["-add", os.path.join(REPO, f) + "="]
        for f in sorted(os.listdir(os.path.join(VERIF, "harness"))):
            if f.endswith("_test.go"):
                cmd += ["-add", os.path.join(REPO, "zz_verif_" + f) + "=" + os.path.join(VERIF, "harness", f)]
        gen = os.path.join(ov, "gen_shims_test.go")
        open(gen, "w").write(gen_shims())
        cmd += ["-add", os.path.join(REPO, "zz_verif_gen_shims_test.go") + "=" + gen]
        cmd += [REPO, os.path.join(REPO, "internal", "mux")]
        r = sh(cmd, stdout=subprocess.PIPE, text=True)
        if r.returncode != 0:
            die("instrumenter failed")
        sys.stderr.write("instr: " + r.stdout)
        gomod = open(os.path.join(REPO, "go.mod")).read()
        gomod += "\nrequire verifsim v0.0.0\nreplace verifsim => %s\n" % os.path.join(VERIF, "sim")
        gomod += "require github.com/anishathalye/porcupine v1.3.0\n"
        modfile = os.path.join(ov, "go.mod")
        open(modfile, "w").write(gomod)
        shutil.copy(os.path.join(REPO, "go.sum"), os.path.join(ov, "go.sum"))
        cmd = [GO, "test", "-c", "-tags", "verif", "-vet=off", "-modfile=" + modfile,
               "-overlay=" + os.path.join(ov, "overlay.json"), "-o", binp]
        if race:
            cmd.append("-race")
        cmd.append(".")
        r = sh(cmd, cwd=REPO, stdout=subprocess.PIPE, stderr=subprocess.STDOUT, text=True)
        if r.returncode != 0:
            sys.stderr.write(r.stdout)
            die("building the simulation binary from %s failed" % REPO)
        open(stamp, "w").write(th)
        sys.stderr.write("build: %s in %.1fs\n" % (name, time.time() - t0))
        return binp
    finally:
        fcntl.flock(lock, fcntl.LOCK_UN)


def worker_env(prop, mode, out, **kw):
    e = dict(ENV)
    e.update({"VERIF_PROP": prop, "VERIF_MODE": mode, "VERIF_OUT": out, "GOMAXPROCS": str(kw.pop("gomaxprocs", 1)),
              "GOTRACEBACK": "all", "GORACE": "halt_on_error=1 exitcode=66"})
    for k, v in kw.items():
        e["VERIF_" + k.upper()] = str(v)
    return e


def describe(binp):
    out = os.path.join(BUILD, "describe.%d.json" % os.getpid())
    r = subprocess.run([binp, "-test.run", "^TestVerif$"], env=worker_env("_", "describe", out), cwd=BUILD,
                       stdout=subprocess.PIPE, stderr=subprocess.STDOUT, text=True)
    if r.returncode != 0 or not os.path.exists(out):
        sys.stderr.write(r.stdout)
        die("describe failed")
    d = json.load(open(out))
    os.unlink(out)
    return d


def read_jsonl(path):
    rows = []
    if not os.path.exists(path):
        return rows
    with open(path) as fh:
        for line in fh:
            line = line.strip()
            if not line:
                continue
            try:
                rows.append(json.loads(line))
            except json.JSONDecodeError:
                pass  # torn last line of a killed worker
    return rows


class Chunk:
    def __init__(self, wid, frm, n):
        self.wid, self.frm, self.n = wid, frm, n
        self.proc = None
        self.out = None
        self.log = None
        self.part = 0


def run_batch(binp, prop, tier, base, total, workers, timeout, gomaxprocs=1, keep=3, deadline=None):
    """Run `total` generated cases over worker processes. Returns (results, crashes, stuck)."""
    tmp = os.path.join(BUILD, "run-%s-%d" % (prop, os.getpid()))
    shutil.rmtree(tmp, ignore_errors=True)
    os.makedirs(tmp)
    per = (total + workers - 1) // workers
    pending = []
    for w in range(workers):
        frm = w * per
        n = min(per, total - frm)
        if n > 0:
            pending.append(Chunk(w, frm, n))
    results, crashes, stuck = [], [], []
    active = []

    def launch(ch):
        ch.part += 1
        ch.out = os.path.join(tmp, "w%d.%d.jsonl" % (ch.wid, ch.part))
        ch.log = os.path.join(tmp, "w%d.%d.log" % (ch.wid, ch.part))
        env = worker_env(prop, "gen", ch.out, base=base, total=total, tier=tier, keep=keep, run_timeout=timeout,
                         gomaxprocs=gomaxprocs)
        env["VERIF_FROM"] = str(ch.frm)
        env["VERIF_N"] = str(ch.n)
        ch.proc = subprocess.Popen([binp, "-test.run", "^TestVerif$", "-test.timeout", "0"], env=env, cwd=tmp,
                                   stdout=open(ch.log, "w"), stderr=subprocess.STDOUT)
        active.append(ch)

    for ch in pending:
        launch(ch)
    while active:
        time.sleep(0.05)
        for ch in list(active):
            rc = ch.proc.poll()
            if rc is None:
                if deadline and time.time() > deadline:
                    ch.proc.kill()
                    ch.proc.wait()
                    active.remove(ch)
                    rows = read_jsonl(ch.out)
                    results.extend(r for r in rows if "verdict" in r)
                continue
            active.remove(ch)
            rows = read_jsonl(ch.out)
            done = [r for r in rows if "verdict" in r]
            results.extend(done)
            if rc == 0:
                continue
            starts = [r["start"] for r in rows if "start" in r]
            if rc == 4:
                # planned restart: the worker reported its last run and left because that run had
                # abandoned a goroutine that spins forever inside the code under test
                nfrm = ch.frm + max(len(starts), 1)
                nn = ch.frm + ch.n - nfrm
                if nn > 0 and not (deadline and time.time() > deadline):
                    ch.frm, ch.n = nfrm, nn
                    launch(ch)
                continue
            finished = set(r["seed"] for r in done)
            st = [r for r in rows if "stuck" in r]
            logtxt = open(ch.log, errors="replace").read()
            idx_done = len(starts)  # number of runs begun in this part
            if st:
                stuck.append(dict(seed=st[0]["stuck"], index=ch.frm + idx_done - 1, locks=st[0].get("locks"),
                                  stacks=st[0].get("stacks", "")[-20000:]))
            else:
                seed = starts[-1] if starts and starts[-1] not in finished else None
                srows = [r for r in rows if "start" in r]
                ccase = srows[-1].get("case") if srows and seed is not None else None
                # the panic message is at the head of the goroutine dump, the tail shows the other goroutines
                i0 = max(logtxt.find("panic:"), logtxt.find("fatal error:"), logtxt.find("WARNING: DATA RACE"), 0)
                keep = logtxt[max(0, i0 - 2000):i0 + 12000] + "\n...\n" + logtxt[-15000:] if len(logtxt) > 30000 else logtxt
                crashes.append(dict(seed=seed, index=ch.frm + idx_done - 1, rc=rc, log=keep, case=ccase))
            # continue after the failed run
            nfrm = ch.frm + max(idx_done, 1)
            nn = ch.frm + ch.n - nfrm
            if nn > 0 and not (deadline and time.time() > deadline):
                ch.frm, ch.n = nfrm, nn
                launch(ch)
    shutil.rmtree(tmp, ignore_errors=True)
    return results, crashes, stuck


def run_case(binp, prop, case_obj, timeout, seed=0, gomaxprocs=1, tag="r"):
    """Run one explicit case in a fresh process; returns the result row or a crash/stuck dict."""
    tmp = os.path.join(BUILD, "case-%s-%d-%s" % (prop, os.getpid(), tag))
    shutil.rmtree(tmp, ignore_errors=True)
    os.makedirs(tmp)
    cf = os.path.join(tmp, "case.json")
    json.dump({"seed": seed, "case": case_obj}, open(cf, "w"))
    out = os.path.join(tmp, "out.jsonl")
    env = worker_env(prop, "replay", out, case=cf, run_timeout=timeout, gomaxprocs=gomaxprocs)
    r = subprocess.run([binp, "-test.run", "^TestVerif$", "-test.timeout", "0"], env=env, cwd=tmp,
                       stdout=subprocess.PIPE, stderr=subprocess.STDOUT, text=True, errors="replace")
    rows = read_jsonl(out)
    shutil.rmtree(tmp, ignore_errors=True)
    for row in rows:
        if "verdict" in row:
            return row
    for row in rows:
        if "stuck" in row:
            return {"verdict": "stuck", "detail": "\n".join(row.get("locks") or []), "stacks": row.get("stacks", "")}
    return {"verdict": "crash", "rc": r.returncode, "log": r.stdout[-30000:]}


def _key(obj, k):
    return int(k) if isinstance(obj, list) else k


def get_path(obj, path):
    for k in path.split("."):
        obj = obj[_key(obj, k)]
    return obj


def set_path(obj, path, val):
    ks = path.split(".")
    for k in ks[:-1]:
        obj = obj[_key(obj, k)]
    obj[_key(obj, ks[-1])] = val


def crash_class(log):
    """A short, stable class for a crashed worker: the panic message plus first pion frame."""
    msg, frame = "", ""
    lines = log.splitlines()
    for i, l in enumerate(lines):
        if l.startswith("panic:") or l.startswith("fatal error:"):
            msg = re.sub(r"\d+", "N", l.strip()[:160])  # (indices and lengths vary with the input)
            for m in lines[i + 1:]:
                m = m.strip()
                if m.startswith("github.com/pion/") and m.endswith(")"):
                    frame = m.rsplit("(", 1)[0].replace("github.com/pion/webrtc/v4.", "").replace("github.com/pion/", "")
                    break
            break
        if "WARNING: DATA RACE" in l:
            msg = "data race"
            fr = []
            for m in lines[i + 1:i + 60]:
                m = m.strip()
                if m.startswith("github.com/pion/") and "(" in m:
                    fr.append(m.split("(")[0].replace("github.com/pion/webrtc/v4.", ""))
                if len(fr) >= 1 and (m.startswith("Previous") or m.startswith("Goroutine")):
                    break
            # first pion (non-shim, non-harness) frame of each of the two accesses
            acc = []
            take = False
            for m in lines[i + 1:i + 80]:
                ms = m.strip()
                if ms.startswith("Read at") or ms.startswith("Write at") or ms.startswith("Previous") or ms.startswith("Atomic"):
                    take = True
                    continue
                if ms.startswith("Goroutine "):
                    break
                if take and ms.startswith("github.com/pion/") and ms.endswith(")"):
                    fn = ms.rsplit("(", 1)[0].replace("github.com/pion/webrtc/v4.", "").replace("github.com/pion/", "")
                    acc.append(fn)
                    take = False
            frame = " vs ".join(sorted(set(acc))[:2])
            break
    return (msg + (" @ " + frame if frame else "")).strip() or "worker died without a panic message"


def same_failure(row, cls):
    return row.get("verdict") in ("violation", "crash", "stuck") and failure_class(row) == cls


def failure_class(row):
    if row.get("verdict") == "violation":
        return row.get("class", "")
    if row.get("verdict") == "crash":
        return "crash: " + crash_class(row.get("log", ""))
    if row.get("verdict") == "stuck":
        return "stuck"
    return ""


def shrink(binp, prop, meta, case_obj, cls, timeout, need=1, budget_s=90, gomaxprocs=1):
    """Delta-debug the array fields named in meta['shrink'] while the same failure class persists."""
    t_end = time.time() + budget_s
    best = copy.deepcopy(case_obj)
    tries = 0

    def holds(cand):
        nonlocal tries
        for i in range(need):
            tries += 1
            row = run_case(binp, prop, cand, timeout, gomaxprocs=gomaxprocs, tag="s")
            if not same_failure(row, cls):
                return False
        return True

    changed = True
    while changed and time.time() < t_end:
        changed = False
        for path in meta.get("shrink") or []:
            try:
                arr = get_path(best, path)
            except (KeyError, TypeError, IndexError, ValueError):
                continue
            if not isinstance(arr, list) or not arr:
                continue
            n = 2
            while len(arr) >= 1 and time.time() < t_end:
                chunk = max(1, len(arr) // n)
                reduced = False
                for start in range(0, len(arr), chunk):
                    cand_arr = arr[:start] + arr[start + chunk:]
                    cand = copy.deepcopy(best)
                    set_path(cand, path, cand_arr)
                    if holds(cand):
                        best, arr = cand, cand_arr
                        reduced = changed = True
                        n = max(n - 1, 2)
                        break
                    if time.time() > t_end:
                        break
                if not reduced:
                    if chunk == 1:
                        break
                    n = min(n * 2, len(arr))
    return best, tries


def known_matches(k, cls):
    """A known finding names its violation class exactly ("class") or, where one defect shows up
    under a family of class names, by a regular expression over the whole class ("class_regex")."""
    import re
    if k.get("class") == cls:
        return True
    rx = k.get("class_regex")
    return bool(rx) and re.fullmatch(rx, cls) is not None


def load_known():
    p = os.path.join(VERIF, "known_findings.json")
    if not os.path.exists(p):
        return []
    return json.load(open(p)).get("findings", [])


def write_evidence(prop, tier, seed, meta, cov, wall, violations, extra_assumptions=()):
    os.makedirs(os.path.join(OUTDIR, "evidence"), exist_ok=True)
    ev = {
        "property_id": prop, "tier": tier, "seed": seed, "level": meta.get("level", "exploration"),
        "coverage": cov, "assumptions": list(meta.get("assumptions") or []) + list(extra_assumptions),
        "wall_s": round(wall, 2), "violations": violations,
    }
    p = os.path.join(OUTDIR, "evidence", prop + ".json")
    json.dump(ev, open(p + ".tmp", "w"), indent=1)
    os.replace(p + ".tmp", p)
    if tier == "thorough":
        # the quick tier rewrites evidence/<id>.json on every change; the last thorough result is kept too
        os.makedirs(os.path.join(OUTDIR, "evidence", "thorough"), exist_ok=True)
        ev["coverage"] = dict(cov, samples=cov.get("samples", [])[:1])
        json.dump(ev, open(os.path.join(OUTDIR, "evidence", "thorough", "%s.seed%s.json" % (prop, seed)), "w"), indent=1)


def cmd_check(prop, tier, runs=None, workers=None):
    t0 = time.time()
    seed = int(os.environ.get("VERIF_SEED", "1") or "1")
    plan = dict(DEFAULT_PLAN)
    plan.update(PLAN.get(prop, {}))
    race = bool(plan.get("race"))
    binp = build(race)
    metas = describe(binp)
    if prop not in metas:
        die("no harness registered for " + prop)
    meta = metas[prop]
    total = runs or int(os.environ.get("VERIF_RUNS", "0") or 0) or plan[tier]
    workers = workers or int(os.environ.get("VERIF_WORKERS", "0") or 0) or NCPU
    workers = max(1, min(workers, total))
    gmp = plan.get("gomaxprocs", 1)
    budget = plan.get(tier + "_budget_s")
    deadline = t0 + budget if budget else None
    if plan.get("workers"):
        workers = max(1, min(workers, plan["workers"]))
    results, crashes, stuck = run_batch(binp, prop, tier, seed, total, workers, plan["timeout"], gomaxprocs=gmp,
                                        deadline=deadline)
    # further batches of the same property run by another harness id / binary
    hplan = {prop: (binp, meta, plan)}
    for hid, sub in plan.get("extra", []):
        sp = dict(DEFAULT_PLAN)
        sp.update(sub)
        b2 = build(bool(sp.get("race")))
        m2 = metas.get(hid) or describe(b2).get(hid) or die("no harness registered for " + hid)
        hplan[hid] = (b2, m2, sp)
        n2 = runs or int(os.environ.get("VERIF_RUNS", "0") or 0) or sp[tier]
        r2, c2, s2 = run_batch(b2, hid, tier, seed, n2, max(1, min(NCPU, n2)), sp["timeout"], gomaxprocs=sp.get("gomaxprocs", 1),
                               deadline=deadline)
        for r in r2 + c2 + s2:
            r["hid"] = hid
        results += r2
        crashes += c2
        stuck += s2
        total += n2
    wall_runs = time.time() - t0

    # ---- aggregate
    errors = [r for r in results if r["verdict"] == "error"]
    viol = [r for r in results if r["verdict"] == "violation"]
    for c in crashes:
        viol.append({"verdict": "crash", "seed": c["seed"], "log": c["log"], "index": c["index"], "rc": c["rc"], "hid": c.get("hid"), "case": c.get("case")})
    stats, nontrivial, sigs = {}, set(), set()
    sim_ns = steps = 0
    samples = []
    for r in results:
        for k, v in (r.get("stats") or {}).items():
            stats[k] = stats.get(k, 0) + v
        if r.get("nontrivial"):
            nontrivial.add(r["nontrivial"])
        if r.get("sig"):
            sigs.add(r["sig"])
        sim_ns += r.get("sim_ns", 0)
        steps += r.get("steps", 0)
        if r.get("case") is not None and len(samples) < 3 and r["verdict"] == "ok":
            samples.append({"seed": r["seed"], "case": r["case"], "history_head": (r.get("log") or [])[:40]})

    known = [k for k in load_known() if k.get("property") == prop and k.get("status") == "open"]
    by_class = {}
    for v in viol:
        by_class.setdefault(failure_class(v), []).append(v)
    known_hit, new = {}, {}
    for cls, rows in by_class.items():
        k = next((k for k in known if known_matches(k, cls)), None)
        if k:
            known_hit[cls] = (k, rows)
        else:
            new[cls] = rows

    exit_code = 0
    report_lines = []
    viol_files = []
    os.makedirs(os.path.join(OUTDIR, "replays"), exist_ok=True)
    for cls, rows in sorted(new.items()):
        row = rows[0]
        case_obj = row.get("case")
        hid = row.get("hid") or prop
        hbin, hmeta, hpl = hplan[hid]
        replay = {"property": prop, "harness": hid, "tier": tier, "seed": row.get("seed"), "class": cls, "detail": row.get("detail", ""),
                  "replay_class": hmeta.get("replay_class"), "count_in_batch": len(rows), "case": case_obj,
                  "history": row.get("log")}
        if row["verdict"] == "crash":
            replay["crash_log"] = row.get("log", "")
            if case_obj is None and row.get("index") is not None:
                # regenerate the case of the crashed run to make the replay self-contained
                replay["regen"] = {"base": seed, "index": row["index"], "total": total, "harness": hid}
        if case_obj is not None:
            exact = hmeta.get("replay_class") == "exact"
            need = 1 if exact else 3
            # confirm in a fresh process
            reps = 1 if exact else 5
            got = 0
            for i in range(reps):
                rr = run_case(hbin, hid, case_obj, hpl["timeout"], seed=row.get("seed") or 0, gomaxprocs=hpl.get("gomaxprocs", 1))
                if same_failure(rr, cls):
                    got += 1
            replay["live_reproduced"] = "%d/%d" % (got, reps)
            if got == reps and hmeta.get("shrink"):
                small, tries = shrink(hbin, hid, hmeta, case_obj, cls, hpl["timeout"], need=need,
                                      budget_s=hpl.get("shrink_budget_s", 60), gomaxprocs=hpl.get("gomaxprocs", 1))
                rr = run_case(hbin, hid, small, hpl["timeout"], seed=row.get("seed") or 0, gomaxprocs=hpl.get("gomaxprocs", 1))
                if same_failure(rr, cls):
                    replay["unminimised_case"] = case_obj
                    replay["case"] = small
                    replay["history"] = rr.get("log")
                    replay["detail"] = rr.get("detail", replay["detail"])
                    replay["shrink_replays"] = tries
        fn = os.path.join(OUTDIR, "replays", "%s-%s.json" % (prop, hashlib.sha1(cls.encode()).hexdigest()[:10]))
        json.dump(replay, open(fn, "w"), indent=1)
        viol_files.append(fn)
        report_lines.append("VIOLATION property=%s replay=%s" % (prop, fn))
        report_lines.append("  class: %s (%d of %d runs)\n  detail: %s" % (cls, len(rows), len(results), str(replay["detail"])[:600]))
        exit_code = 1
    # one line per listed finding (a finding may cover a family of classes)
    per_finding = {}
    for cls, (k, rows) in sorted(known_hit.items()):
        e = per_finding.setdefault(id(k), [k, [], 0, rows[0].get("seed")])
        e[1].append(cls)
        e[2] += len(rows)
    for k, classes, n, seed0 in per_finding.values():
        report_lines.append("KNOWN-FINDING: property=%s %s [classes %s; %d of %d runs; e.g. seed %s]" % (
            prop, k.get("description", ""), ", ".join(classes), n, len(results), seed0))

    if errors:
        report_lines.append("HARNESS-ERROR: %d runs; first: %s" % (len(errors), errors[0].get("detail", "")[:2000]))
        if exit_code == 0:
            exit_code = 2
    if stuck:
        report_lines.append("STUCK: %d runs hit the wall-clock watchdog; first seed %s\n%s" % (
            len(stuck), stuck[0]["seed"], "\n".join(stuck[0].get("locks") or [])))
        sp = os.path.join(BUILD, "stuck-%s.txt" % prop)
        open(sp, "w").write(stuck[0].get("stacks", ""))
        report_lines.append("  stacks: " + sp)
        if exit_code == 0:
            exit_code = 2
    if len(results) == 0 and exit_code == 0:
        report_lines.append("no run completed")
        exit_code = 2

    wall = time.time() - t0
    cov = {
        "evaluations": len(results) + len(crashes) + len(stuck),
        "distinct_nontrivial": len(nontrivial),
        "rule": meta.get("rule", ""),
        "samples": samples or [{"note": "no passing sample kept"}],
        "exhaustive": bool(meta.get("level") == "fault_enumeration" and plan.get("space") and len(nontrivial) >= plan["space"]),
        "runs_per_hour": int(len(results) / max(wall_runs, 1e-6) * 3600),
        "sim_time_s": round(sim_ns / 1e9, 3),
        "scheduler_steps": steps,
        "distinct_histories": len(sigs),
        "faults_and_probes": dict(sorted(stats.items())),
        "real_components": meta.get("real"),
        "stub_components": meta.get("stub"),
        "replay_class": meta.get("replay_class"),
        "workers": workers,
        "stuck_runs": len(stuck),
        "worker_crashes": len(crashes),
        "violation_classes_new": sorted(new.keys()),
        "known_findings_hit": {cls: len(rows) for cls, (k, rows) in known_hit.items()},
    }
    if meta.get("level") != "fault_enumeration":
        cov.pop("exhaustive")
    write_evidence(prop, tier, seed, meta, cov, wall, sum(len(v) for v in new.values()))
    for l in report_lines:
        print(l)
    print("%s %s: %d runs, %d distinct non-trivial, %d new violation classes, %d known, %.1fs" % (
        prop, tier, len(results), len(nontrivial), len(new), len(known_hit), wall))
    return exit_code


def cmd_replay(prop, path):
    plan = dict(DEFAULT_PLAN)
    plan.update(PLAN.get(prop, {}))
    rep = json.load(open(path))
    prop0 = prop
    hid = rep.get("harness") or prop
    if hid != prop:
        sub = dict(plan.get("extra", [])).get(hid) or die("replay names harness %s, unknown for %s" % (hid, prop))
        plan = dict(DEFAULT_PLAN)
        plan.update(sub)
        prop = hid
    binp = build(bool(plan.get("race")))
    metas = describe(binp)
    meta = metas.get(prop) or die("no harness for " + prop)
    case_obj = rep.get("case")
    if case_obj is None:
        die("replay file has no case (crash before the case was recorded); re-run the check with VERIF_SEED")
    cls = rep.get("class", "")
    reps = 1 if meta.get("replay_class") == "exact" else 10
    got = 0
    last = None
    for i in range(reps):
        last = run_case(binp, prop, case_obj, plan["timeout"], seed=rep.get("seed") or 0, gomaxprocs=plan.get("gomaxprocs", 1))
        if same_failure(last, cls):
            got += 1
    print("replay %s: class %r reproduced live %d/%d" % (path, cls, got, reps))
    if last and last.get("log"):
        print("\n".join(last["log"][:200]))
    if got:
        known = [k for k in load_known() if k.get("property") == prop0 and k.get("status") == "open" and known_matches(k, cls)]
        if known:
            print("KNOWN-FINDING: property=%s %s" % (prop0, known[0].get("description", "")))
            return 0
        print("VIOLATION property=%s replay=%s" % (prop0, path))
        print("  detail:", (last or {}).get("detail", ""))
        return 1
    return 0


def cmd_determinism(prop, seeds, reps):
    """Exact-class self-test: the same generated cases, run in many fresh processes at several
    GOMAXPROCS values, must produce identical event-log hashes."""
    plan = dict(DEFAULT_PLAN)
    plan.update(PLAN.get(prop, {}))
    binp = build(bool(plan.get("race")))
    base = int(os.environ.get("VERIF_SEED", "1") or "1")
    sigs = {}
    for rep in range(reps):
        gmp = (1, 4, 16)[rep % 3]
        results, crashes, stuck = run_batch(binp, prop, "quick", base, seeds, min(NCPU, seeds), plan["timeout"],
                                            gomaxprocs=gmp, keep=0)
        if crashes or stuck:
            print("determinism: crash/stuck during self-test", crashes[:1], stuck[:1])
            return 2
        for r in results:
            sigs.setdefault(r["seed"], set()).add((r.get("sig"), r.get("verdict"), r.get("class")))
    bad = {k: v for k, v in sigs.items() if len(v) != 1}
    print("determinism %s: %d seeds x %d processes (GOMAXPROCS 1/4/16): %d seeds diverged" % (prop, len(sigs), reps, len(bad)))
    for k, v in list(bad.items())[:5]:
        print("  seed", k, sorted(map(str, v)))
    return 2 if bad else 0


def main():
    a = sys.argv[1:]
    if not a:
        die(__doc__)
    if a[0] == "build":
        build("--race" in a)
        if "--both" in a:
            build(True)
        return 0
    if a[0] == "check":
        runs = workers = None
        if "--runs" in a:
            runs = int(a[a.index("--runs") + 1])
        if "--workers" in a:
            workers = int(a[a.index("--workers") + 1])
        return cmd_check(a[1], a[2], runs, workers)
    if a[0] == "replay":
        return cmd_replay(a[1], a[2])
    if a[0] == "determinism":
        return cmd_determinism(a[1], int(a[2]) if len(a) > 2 else 64, int(a[3]) if len(a) > 3 else 30)
    die(__doc__)


if __name__ == "__main__":
    sys.exit(main())
