#!/usr/bin/env python3
"""Regenerates /verif/MANIFEST.json from the table below (run after adding a check)."""
import json
import os

VERIF = os.path.dirname(os.path.dirname(os.path.abspath(__file__)))

NA = {
    "C17": "pure predicate on two codec descriptions: no schedule, clock, peer or fault can change the outcome, so deterministic simulation does not apply (DESIGN.md §7)",
    "C25": "pure conversion of a candidate value; the only history-dependent clause is a deterministic function of the applied description and the simulated network can only gather host/UDP candidates (DESIGN.md §7)",
    "C28": "pure fold over the written sample sequence; no clock is read, no concurrency, no fault (DESIGN.md §7)",
    "C32": "writer->reader composition is a deterministic function of the packet list; the byte sink plays no role in the property (DESIGN.md §7)",
    "C33": "writer->reader composition is a deterministic function of the packet list (DESIGN.md §7)",
    "C35": "writer->reader composition is a deterministic function of the packet list (DESIGN.md §7)",
    "C36": "writer->reader composition is a deterministic function of the record list (DESIGN.md §7)",
    "C15": "codec negotiation is a pure function of the local codec registrations and the remote description's codec lists: no schedule, clock, peer timing or fault can change which codecs are matched, so it is input generation, not simulation (DESIGN.md §7)",
    "C38": "pure encode/decode round trips of value types (DESIGN.md §7)",
}

COOP_NOTE = ("Trusted: the syntactic instrumenter (lock/atomic/receive sites are the only points where tasks interact), "
             "testing/synctest quiescence detection, the harness oracle. Sampling of schedules, not enumeration.")
PC_NOTE = ("Trusted: testing/synctest fake clock and quiescence, the vnet router, the harness oracle. Every simulator decision (packet fate, workload, signaling fate) is a pure function of the seed; "
           "goroutine interleaving inside the Go runtime is not controlled, so replay is decision-exact: the stored history is re-validated and the case re-executed several times. Sampling, not enumeration.")
TECH_PC = "deterministic simulation: real PeerConnections in a fake-time bubble on a seeded fault-injecting network/signaling channel, reference-model oracle over the recorded history"
TECH_COOP ="deterministic simulation: seeded cooperative scheduler over instrumented real code, history oracle, ddmin-shrunk exactly replayable schedules"

# id -> (engine, category, text, note, technique, design_ref)
CHECKS = {
    "C05": ("coop-component", "exploration",
            "Seeded search over interleavings of the real operations queue: a cooperative scheduler parks every task at each lock, atomic and blocking receive of operations.go and releases one at a time (random walk, sticky and PCT strategies). Histories are checked for exactly-once, queue order, serial execution, Done/GracefulClose waiting and termination. A clean batch is evidence, not proof.",
            COOP_NOTE + " Queued operations are logging closures, not real transport start-up.", TECH_COOP, "§6 C05"),
    "C27": ("coop-component", "exploration",
            "Classification: the complete 256x256x6 (first byte, second byte, length class) grid is enumerated against the RFC 7983 table on every run. Delivery order: seeded search over interleavings of datagram arrival (simulated net.Conn) with NewEndpoint calls on the real mux under the cooperative scheduler; oracle = each datagram at most one endpoint, the right one, per-endpoint read order = arrival order, nothing lost below the queue cap.",
            COOP_NOTE + " At most 10 datagrams per run (queue cap 15 is not part of the property). Length 2-3 RTCP-looking datagrams may classify as SRTP or SRTCP.", TECH_COOP + "; exhaustive enumeration for the classification grid", "§6 C27"),
    "C29": ("coop-component", "exploration",
            "Seeded search over concurrent and sequential bind/unbind/write histories on the real TrackLocalStaticRTP; the cooperative scheduler preempts at every lock site and inside every binding's writer (so a fan-out can be interrupted), some writers fail. Oracle: rewrite rule per delivery (binding's SSRC/PT, everything else equal), at most one delivery per binding per write, nothing delivered after Unbind returned, the caller's packets and buffers deep-equal at the end of the history, and the (op, recipients) history linearizable against a set-of-bindings model (porcupine).",
            COOP_NOTE + " Binding writers are recorders, not SRTP streams. Histories <= 26 ops go to porcupine with a 20 s cap; Unknown is never reported.", TECH_COOP + "; porcupine linearizability check", "§6 C29"),
    "C22": ("coop-component", "exploration",
            "Aggregate: all 70 (closed, ICE, DTLS) combinations are enumerated against a table transcribed from the W3C text on every run. Notifications and staleness: seeded search over interleavings of ICE state changes (through the real internal ICE handler), DTLS state changes followed by the update statement copied from startTransports at build time, and a real Close(), on a real never-connected PeerConnection; a sampler reads the stored state at every scheduling step. Oracle: handler invocations equal observed changes as multisets, and at quiescence the stored state is the aggregate of the current inputs.",
            COOP_NOTE + " Transports are never started; state changes are injected through the handler/setter the real transports use. The partition-driven whole-connection variant (DESIGN §6 C22 iii) is not part of this check.", TECH_COOP + "; exhaustive enumeration of the 70-entry aggregate table", "§6 C22"),
    "C24": ("pcsim", "exploration",
            "Seeded search over interleavings of a real ice.Agent's candidate callbacks (its notifier goroutine is adopted as a scheduler task) with CreateOffer/SetLocalDescription's candidate-pool flush on a real PeerConnection, scheduling points at every lock/atomic site of icegatherer.go; 1-3 host candidates, pool size 0/1, handler registered early/late, optional renegotiation. Oracle: every gathered candidate reported once, nil exactly once, nothing after nil.",
            COOP_NOTE + " Only host/UDP4 candidates (simulated network has no STUN/TURN). The ice.Agent runs free between gatherer sites.", TECH_COOP + " (focus-coop on icegatherer.go inside a whole-PeerConnection simulation)", "§6 C24"),
    "C19": ("pcsim", "exploration",
            "Two real PeerConnections (real ICE, DTLS, SCTP) in one synctest bubble; the simulated network applies a seeded per-datagram fate (delay/jitter => reordering, loss, duplication, corruption, partitions) and then stops injecting faults. Oracle during the run: reliable ordered channels always hold a prefix of what was sent, nothing duplicated, bytes and text/binary flag intact; bounded liveness: 60 s fake after the last fault everything accepted was delivered; in-band channel parameters equal on the remote side.",
            PC_NOTE, TECH_PC, "§6 C19"),
    "C11": ("pcsim", "exploration",
            "Seeded search over interleavings of 1-4 tasks calling CreateOffer/CreateAnswer on one real PeerConnection (fresh / holding a remote offer / after a completed exchange), scheduling points at every lock and atomic site of peerconnection.go and sdp.go; single-task cases give the sequential histories. Oracle: one o= session id, pairwise distinct versions, real-time order of calls respected by versions, every call returns.",
            COOP_NOTE + " The remote description comes from the foreign SDP generator; transports started by the set-up run free, so a few percent of seeds are not bit-reproducible (decision-exact replay).", TECH_COOP + " (focus-coop on peerconnection.go + sdp.go)", "§6 C11"),
    "C18": ("pcsim", "exploration",
            "A real connected (or still connecting) pair under the focus-coop scheduler: 2-4 tasks create in-band channels and negotiated channels with explicit ids on both peers, close them locally and remotely and send, while SCTP start-up, the open handshake and the accept loop of both peers are scheduled at every lock/atomic site of datachannel.go and sctptransport.go; a sampler records every channel's stream id at every step. Oracle: a pion-assigned id is even iff the local DTLS role is client, is never 65535, is not the id of a channel that already had it, and an id once set never changes.",
            PC_NOTE + " Both DTLS roles are covered by letting either peer offer. Collisions caused by an application passing an explicit id that is already in use are counted, not reported (pion does not check them; the property is about assigned ids).", TECH_COOP + " (focus-coop on datachannel.go/sctptransport.go inside a whole-pair simulation)", "§6 C18"),
    "C21": ("pcsim", "exploration",
            "Two real PeerConnections on the simulated network are brought to one of five points of the connection's life (nothing negotiated, offer applied and gathering, ICE/DTLS in progress, connected, data and media flowing); 1-4 goroutines then call Close/GracefulClose on one peer at seeded fake-time offsets (0-1500 ms, many at the same instant), optionally while another goroutine keeps calling the mutating API and while the peer's event handlers take 0-700 ms of fake time on the connection's own goroutines. Oracle: every call returns (180 s fake budget); signaling and connection state are closed and stay closed; each of 10 mutating calls returns InvalidStateError; the connection-state handler reports nothing after closed; at the first quiescent instant after a GracefulClose returned no goroutine started by that peer (pprof-label attribution, runtime goroutine profile) is alive. A second batch (harness C21D) runs 2-4 overlapping close calls as tasks of the seeded cooperative scheduler with scheduling points at every lock/atomic site of the close path (PeerConnection.close and the connection-state update, operations.go, the Stop/close functions of ICE transport and gatherer, DTLS, SCTP, transceivers), same oracles without the census.",
            PC_NOTE + " The interleaving of close calls started at the same fake instant is the Go scheduler's (GOMAXPROCS=1 worker), not chosen by the PRNG; what the PRNG chooses is the point of the connection's life, the call mix and offsets, handler durations and the network.", TECH_PC + "; goroutine census via pprof labels at a quiescent instant", "§6 C21"),
    "C40": ("pcsim", "exploration",
            "One seeded generator of concurrent programs (2-6 goroutines x 3-10 calls over AddTrack, RemoveTrack, AddTransceiver*, CreateDataChannel, Get{Transceivers,Senders,Receivers}, the state/description getters, GetStats, WriteRTP, a final Close/GracefulClose in half the cases, plus one goroutine doing 1-3 serialized offer/answer rounds with a second real PeerConnection), run two ways. (a) Race-detector build, real goroutines, real time, perturbation (yield / microsecond sleep) at every instrumented lock/atomic/receive site with the shim in a bookkeeping-free mode; oracle: the Go race detector (first report ends the run) and a 45 s watchdog for calls that do not return. (b) Ordinary build in a fake-time bubble under the seeded cooperative scheduler with scheduling points at every lock/atomic site of peerconnection.go, rtptransceiver.go, rtpsender.go, rtpreceiver.go, sctptransport.go, stats_go.go, track_local_static.go; oracle: every task finishes (a lock-order or wait-for cycle leaves tasks that can never run).",
            "In (a) the interleaving is the Go runtime's, perturbed, not chosen by the seed: a scheduler that decides every step hands control between goroutines through synchronisation the race detector would count as happens-before, hiding the races it is there to find; the seed decides the program, and replay is statistical (decision-exact, 10 fresh processes). The simulated network's own mutex is shared by packet-sending goroutines and may hide races between them. (b) is replayable from its recorded schedule like the other cooperative checks. " + COOP_NOTE,
            "seeded concurrent-program generation; (a) Go race detector + site perturbation, (b) deterministic simulation under the seeded cooperative scheduler (deadlock search)", "§6 C40"),
    "C30": ("pcsim", "exploration",
            "A hostile remote peer against a real victim PeerConnection in a fake-time bubble: valid browser-like descriptions (RTX ssrc-groups, simulcast rids, Plan-B multi-source sections, text sections) with 0-8 seeded line-grammar mutations (delete/duplicate/swap/truncate lines, boundary numbers, ~170 hostile attribute and m= lines, m-line rewrites, raw bytes) applied as offer (+CreateAnswer, SetLocalDescription, mutated re-offer) or as answer to the victim's own offer, under Unified Plan / Plan B / Unified-Plan-with-fallback and four kinds of local state; mutated candidate strings through AddICECandidate; and, on a really connected pair, 5-40 hostile RTP and 2-15 hostile RTCP packets protected with the sender's own SRTP/SRTCP keys (unknown SSRCs, any payload type, mid/rid/rrid extensions, lying lengths, truncation); and a live hostile peer: a real PeerConnection whose own offer is mutated on the way (also: every codec of a section unknown, direction flipped with an extra a=ssrc), so that the connection can come up and receivers really start. After every step the bubble runs to quiescence for seconds of fake time, and the connection is closed at the end, so background work (operations queue, transport and receiver start-up, undeclared-SSRC probing) happens inside the run. Oracle: no panic on the calling goroutine (caught, attributed to the call) and none on any other goroutine (worker death, attributed by message and first pion frame).",
            PC_NOTE + " Mutation is seeded and grammar-based, not coverage-guided.", TECH_PC + "; process-survival oracle", "§6 C30"),
    "C20": ("pcsim", "exploration",
            "Same engine as C18 with local Close/GracefulClose, remote close, Send and PeerConnection.Close/GracefulClose tasks around the open handshake. A sampler reads readyState of every channel object (local and announced, both peers) at every scheduling step. Oracle: the sampled sequence never moves backwards along connecting < open < closing < closed; OnOpen and OnClose each run at most once per registration; Send on a channel that is not open returns an error; a channel on which Close returned is closed once both PeerConnections are closed.",
            PC_NOTE + " Runs in which a GracefulClose waits forever for a stream reset the remote never sends (channel closed before its open message was delivered; documented GracefulClose behaviour) are counted inconclusive.", TECH_COOP + " (focus-coop inside a whole-pair simulation, per-step state sampler)", "§6 C20"),
    "C31": ("iosim", "exploration",
            "Packet-stream simulation: frames are packetized with a harness depacketizer whose payload bytes name (frame, index, head, tail), so every byte of every emitted sample is attributable to one pushed packet; delivery applies seeded reordering within a window, loss and duplication, sequence/timestamp wrap-around, Pops interleaved with Pushes and a final Flush; maxLate and max time delay vary. Oracle: a sample is a contiguous run of one timestamp starting at a partition head, samples come out in sequence order, no packet in two samples, complete frames are emitted after Flush for loss-free bounded reordering.",
            "Pure function of the case (exactly replayable). Completeness is only demanded when reordering distance + frame span <= maxLate and no time delay is set.", "deterministic simulation of a lossy/reordering/duplicating packet link in front of the real SampleBuilder, attribution oracle", "§6 C31"),
    "C34": ("iosim", "exploration",
            "Stream simulation: random H.264/H.265 NAL sequences (all types, SEI anywhere incl. last, 1 B-10 KiB, 3/4-byte start codes) are read through a simulated io.Reader with seeded chunk sizes, zero-length reads, data returned together with io.EOF and, in the faulty configuration, one transient error. Oracle (fault-free source): exactly the NAL list, header fields equal the header bytes, SEI skipped when off; after an injected error only 'no wrong data'. On a violation the case is re-run with each source behaviour switched off to name the cause.",
            "Pure function of the case (exactly replayable). NAL payloads contain no emulated start codes and no trailing zero byte, as the property assumes.", "deterministic simulation of the byte source (short/empty reads, EOF-with-data, injected read error) under the real Annex-B readers", "§6 C34"),
    "C37": ("iosim", "exploration",
            "Crash/torn-write and corruption simulation for the IVF, Ogg, H.264, H.265 and rtpdump readers and ParseOpusHead/ParseOpusTags: every valid seed file (built with the repository's writers and by hand) is truncated at EVERY offset (complete enumeration, partitioned over the batch), and seeded corruptions (byte flips, length fields overwritten with boundary values, splices, early read errors) are delivered through the seeded chunking reader. Oracle: no panic, every call returns data, an error or end of stream, and the number of successful calls and of Read calls is bounded by the stream length (no hang, no spinning after EOF).",
            "Pure function of the case (exactly replayable). Seeded structural mutation, not coverage-guided fuzzing. Memory use is observed (IVF allocates the declared frame size) but not judged.", "deterministic simulation of torn/corrupted media files and a misbehaving byte source under the real container readers; truncation enumerated completely", "§6 C37"),
    "C13": ("pcsim", "fault_enumeration",
            "The complete 48-entry configuration matrix (ICE-lite on each side x answering DTLS role unset/client/server x offer a=setup actpass/active/passive/absent, the offer's setup rewritten by the simulated signaling channel) is enumerated, each configuration running a full connection of two real PeerConnections on the simulated network with a seeded delay. Oracle: the answer's a=setup is active or passive and never claims the role an explicit offer claimed; ICE roles are complementary and follow RFC 8445 6.1.1; the DTLS client observed on the wire (first ClientHello) is the one the exchanged setup values name; both transports connect and report opposite roles.",
            PC_NOTE + " For lite/lite nobody sends connectivity checks, so only the ICE-role clause is evaluated there. An answerer that rejects an unusual offer with an error is not a violation.", "deterministic simulation of the full connection per enumerated configuration (complete 48-entry matrix), wire-level observation of the DTLS handshake", "§6 C13"),
    "C14": ("pcsim", "exploration",
            "Two real PeerConnections (generated or user-supplied ECDSA / RSA-2048 certificates, session- or media-level fingerprints) connect through a signaling channel that acts as man in the middle on a=fingerprint: one hex digit altered, hash relabelled sha-1 / sha-384, fingerprint deleted, moved between levels or lower-cased (value kept). Oracle: the advertised SHA-256 fingerprint equals the digest of the certificate the other side actually received; on a mismatch the victim's DTLS transport is never connected (sampled every 500 ms of fake time for 30 s) and it delivers no data-channel message; value-preserving changes still connect and deliver.",
            PC_NOTE, TECH_PC + " (signaling channel as man in the middle)", "§6 C14"),
    "C23": ("pcsim", "exploration",
            "A real connected pair carries RTP written to a TrackLocalStaticRTP over real SRTP and interceptors: codec in {Opus, VP8, VP9, H264, AV1}, either side offering, further tracks and a data channel in the bundle, random payloads/markers/timestamps/start sequence numbers. Half of the runs use a fault-free FIFO link (every packet must arrive, once, in order), half inject jitter, loss and duplication (received must be a subset of sent, each intact). Oracle: SSRC is the one announced in the sender's SDP, payload type the one the answer lists for the track's codec configuration, payload/sequence/timestamp/marker unchanged, remote track codec/stream id/track id as sent.",
            PC_NOTE + " Header extensions added by interceptors are not compared.", TECH_PC, "§6 C23"),
    "C26": ("pcsim", "exploration",
            "On a real connected pair with RTX negotiated, the simulated sender suppresses selected originals and puts only their RFC 4588 retransmission on the wire (protected with a separate SRTP context keyed like the sender's transport and written byte for byte, because pion's own SRTP session re-encodes the header; RTX SSRC / payload type, own sequence numbers, OSN prefix), with 0-15 CSRCs, one-byte / two-byte / other extension profiles incl. blocks with RFC 8285 padding words, 0-255 padding bytes, payloads of 0-1000 bytes, RTX packets too short for an OSN, and readers that keep what ReadRTP returned. A second batch (harness C26S) does the same for a simulcast sender announced by rid only (no a=ssrc): mid/rid/repaired-rid extensions, optionally RTX probes first so that the repair stream is bound before the primary one. Oracle on TrackRemote.ReadRTP: sequence number = OSN, primary SSRC and payload type, payload without the OSN, marker/timestamp/CSRCs/extension/padding unchanged; too-short packets are never delivered; nothing crashes.",
            PC_NOTE + " Order between primary packets and unwrapped retransmissions is not compared; two trailing originals let the reader drain the repair queue.", TECH_PC + " (loss-and-retransmit element crafting RFC 4588 packets)", "§6 C26"),
}

SIG_TEXT = {
    "C01": "Oracle: an executable JSEP/W3C signaling state machine with the four description slots, evaluated after every SetLocal/SetRemoteDescription of seeded histories (<=14 operations; offer/pranswer/answer/rollback; own, stale, empty and garbage descriptions; reordered, duplicated, dropped signaling; raw remote descriptions of any type; valid foreign offers and answers). A call may only succeed along an edge and must land on its target; getters must report pending-else-current; stable implies no pending; completing an exchange must move exactly that offer and answer to current.",
    "C02": "As C01 with rollbacks on either side, with and without SDP text, after every kind of state. Oracle: rollback succeeds from the side-matching non-stable states, lands in stable with no pending and the last stable current descriptions, and is rejected from stable.",
    "C03": "As C01 plus signaling tampering (remove mid / ice-ufrag / ice-pwd / fingerprint, corrupt a line, unknown fingerprint hash, unusable codecs, duplicate mids) and wrong-type, stale, empty and garbage descriptions. Oracle: when a Set*Description call returns an error, signaling state, the four descriptions and the number of signaling-state events are what they were before the call. A second batch (harness C03C) runs 2-4 overlapping Set*Description calls, some never acceptable, under the seeded cooperative scheduler (scheduling points at every lock/atomic site of peerconnection.go and signalingstate.go): at most as many state-change events as accepted calls, and nothing changes when every call is rejected.",
    "C04": "Histories of AddTrack, RemoveTrack, AddTransceiverFromKind/FromTrack, Stop, ReplaceTrack, CreateDataChannel, complete and partial exchanges and Close on a connecting pair (real simulated network so queued work drains, each operation drained with the queue's own Done()). Oracle: OnNegotiationNeeded only in stable and not closed; at most one invocation between two transitions into stable; at least one when an uncovered change exists at a stable, drained point.",
    "C06": "Every description CreateOffer/CreateAnswer returns during histories of transceiver/track/data-channel changes and renegotiations against the pion peer and foreign offers (numeric, non-numeric, sparse, one-based mids), under each SDPSemantics, BundlePolicy, AlwaysNegotiateDataChannels and fingerprint level, is read with an independent line-level SDP reader: unique mids on every section, BUNDLE = mids of accepted sections, credentials/direction/setup/fingerprint on accepted sections.",
    "C07": "Every created answer is compared with the remote offer the connection holds (foreign offers mixing audio/video/application/text/message, with and without direction attributes, supported and unsupported codecs; consistent foreign re-offers; pion re-offers): same section count, order, kind and mid.",
    "C08": "Every created answer is checked against the RFC 3264 §6.1 direction table per section, over local direction/track changes and remote (pion and foreign) re-offers that change directions.",
    "C09": "Over alternating renegotiations with additions, removals and stops: a transceiver's Mid() never changes once set, a mid keeps its section index in every generated description relative to all applied local and remote descriptions, no index is renamed, CreateOffer does not hand a new transceiver a mid seen before.",
    "C10": "Every generated media section under random MediaEngine variants (remapped payload types, RTX with and without its primary, direction-limited header extensions), random codec preferences and foreign offers with other payload types / extmap ids: payload types unique, rtpmap/fmtp/rtcp-fb/apt refer to listed payload types, extmap ids unique within 1..14, URIs unique.",
    "C12": "Every successful Unified-Plan CreateOffer after AddTrack/AddTransceiverFromKind/FromTrack/RemoveTrack/ReplaceTrack/CreateDataChannel histories: bijection between transceivers and media sections (mid, kind, direction), msid and SSRCs (incl. FID/FEC-FR groups) of sending tracks equal to the sender's parameters, application section iff data channel or AlwaysNegotiateDataChannels.",
    "C16": "Every created answer section is compared with the corresponding offered section: each payload type is listed there and maps to the same codec (mime, clock rate, channels), for foreign offers with remapped payload types, several configurations of one codec, RTX/FEC, unsupported codecs, against random local MediaEngine variants and codec preferences.",
    "C39": "SetConfiguration is one more generated operation (each of peer identity, certificates, bundle policy, RTCP mux policy, pool size, valid/invalid ICE servers, transport policy changed / unchanged / zero) before and after SetLocalDescription, after exchanges and after Close, on peers with random initial configurations. Oracle: a rejected call leaves GetConfiguration deep-equal; immutable changes return InvalidModificationError; invalid ICE servers are rejected without partial change.",
}
SIG_NOTE = PC_NOTE + " Sequential driver: each operation's queued work is drained (bounded fake time) before the next. Descriptions are identified by type + o= line + m-line/mid skeleton. The foreign peer is an SDP text generator that never completes ICE."
for _pid, _txt in SIG_TEXT.items():
    CHECKS[_pid] = ("pcsim", "exploration", _txt, SIG_NOTE, TECH_PC + " (sequential signaling driver with simulator-owned signaling channel and foreign-peer generator)", "§6 " + _pid)

ENGINES = [
    {"name": "coop-component", "path": "sim/simrt, sim/cmd/instr, harness/", "kind_free_text": "Engine A: one real component under a seeded cooperative scheduler inside a testing/synctest bubble; exactly replayable"},
    {"name": "pcsim", "path": "harness/pcsim_test.go", "kind_free_text": "Engine B: 2-3 real PeerConnections (real ice/dtls/sctp/srtp) inside one bubble on a fault-injecting simulated network and signaling channel; decision-exact replay"},
    {"name": "iosim", "path": "harness/", "kind_free_text": "Engine C: stream/packet-stream simulations (seeded chunking, truncation, byte flips, loss/dup/reorder)"},
]


def main():
    props = [json.loads(l) for l in open(os.path.join(VERIF, "properties.jsonl"))]
    checks = []
    for p in props:
        pid = p["id"]
        if pid not in CHECKS:
            continue
        eng, cat, text, note, tech, ref = CHECKS[pid]
        checks.append({
            "property_id": pid,
            "quick_cmd": "./check %s quick" % pid,
            "thorough_cmd": "./check %s thorough" % pid,
            "evidence_file": "evidence/%s.json" % pid,
            "replay_cmd_template": "./check %s --replay {path}" % pid,
            "engine": eng,
            "level_claimed": {"category": cat, "text": text, "design_ref": ref},
            "level_note": note,
            "technique": tech,
        })
    engines = []
    for e in ENGINES:
        e = dict(e)
        e["serves_properties"] = [pid for pid, v in CHECKS.items() if v[0] == e["name"]]
        engines.append(e)
    na = []
    for p in props:
        if p["id"] in CHECKS:
            continue
        na.append({"property_id": p["id"], "reason": NA.get(p["id"], "harness not finished; not claimed rather than claimed with a weaker technique (see DESIGN.md)")})
    m = {
        "version": 1,
        "setup_cmd": "./check build --both",
        "hooks": {
            "guard": "verif",
            "enable": "no source hooks in /repo: every check instruments an overlay copy of /repo's current working tree (sim/cmd/instr + go test -c -overlay -tags verif) and adds its harness files to package webrtc through the same overlay",
            "baseline_off_cmd": "cd /repo && GOFLAGS=-mod=mod go test -vet=off -count=1 -timeout 25m ./...",
            "source_commits": [],
            "add_only": True,
        },
        "engines": engines,
        "checks": checks,
        "notes": "See DESIGN.md. ./check <ID> <quick|thorough>; ./check <ID> --replay <file>; ./check determinism <ID>. known_findings.json lists genuine defects (open ones print KNOWN-FINDING and do not fail).",
        "not_applicable": na,
    }
    json.dump(m, open(os.path.join(VERIF, "MANIFEST.json"), "w"), indent=1)
    print("MANIFEST.json: %d checks, %d not claimed" % (len(checks), len(na)))


if __name__ == "__main__":
    main()
