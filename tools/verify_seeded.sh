#!/bin/bash
# tools/verify_seeded.sh <patch.diff> <demo_test.go> <pkgdir relative to repo root, e.g. . or internal/mux> [-run regex for demo] 
# Confirms in a scratch worktree of /repo HEAD: demo passes without the patch, fails with it, and the package's existing tests pass with it.
set -u
patch="$(realpath "$1")"; demo="$(realpath "$2")"; pkg="${3:-.}"; run="${4:-Demo}"
export GOFLAGS=-mod=mod GOPROXY=off
wt=$(mktemp -d /tmp/vs.XXXXXX); rmdir "$wt"
git -C /repo worktree add -q --detach "$wt" HEAD || exit 2
trap 'git -C /repo worktree remove --force "$wt" >/dev/null 2>&1' EXIT
cd "$wt"
cp "$demo" "$pkg/zz_demo_verify_test.go"
echo "== demo without patch (expect PASS)"; go test -vet=off -count=1 -run "$run" "./$pkg" 2>&1 | tail -3; r0=${PIPESTATUS[0]}
git apply "$patch" || { echo "PATCH DOES NOT APPLY"; exit 2; }
echo "== demo with patch (expect FAIL)"; go test -vet=off -count=1 -run "$run" "./$pkg" 2>&1 | tail -5; r1=${PIPESTATUS[0]}
rm -f "$pkg/zz_demo_verify_test.go"
echo "== existing tests of ./$pkg with patch (expect PASS)"; go test -vet=off -count=1 -timeout 25m "./$pkg" 2>&1 | tail -3; r2=${PIPESTATUS[0]}
echo "RESULT demo_clean=$r0 demo_patched=$r1 suite_patched=$r2"
[ $r0 = 0 ] && [ $r1 != 0 ] && [ $r2 = 0 ] && echo CONFIRMED || echo NOT-CONFIRMED
