#!/bin/bash
# tools/sweep_seeded.sh [names...] — run every kept seeded change against its property's quick check on the
# current tree and print one line each (caught / MISSED / does not apply). /repo is restored after each.
cd /verif
names="$@"; [ -z "$names" ] && names=$(ls seeded)
for n in $names; do
  id=$(jq -r .property seeded/$n/meta.json)
  out=$(tools/trymut.sh seeded/$n/patch.diff $id quick 2>&1); rc=$?
  cls=$(echo "$out" | grep -m2 "class:" | sed 's/^ *class: //' | tr '\n' ';' | cut -c1-160)
  case $rc in 1) r=caught;; 0) r=MISSED;; *) r="rc=$rc $(echo "$out" | tail -1)";; esac
  echo "$n $r $cls"
done
