#!/bin/bash
# tools/confirm_all.sh [lane lanes]: re-confirms every seeded change without a CONFIRMED confirm.log
# (demo passes on the clean tree, fails with the patch, the package's own tests pass with the patch).
lane=${1:-0}; lanes=${2:-1}; i=0
cd /verif
for d in seeded/*/; do
  n=$(basename $d)
  grep -q '^CONFIRMED' $d/confirm.log 2>/dev/null && continue
  i=$((i+1)); [ $((i % lanes)) = $lane ] || continue
  demo=$(ls $d/demo_*.go.txt 2>/dev/null | head -1); [ -z "$demo" ] && { echo "$n: no demo"; continue; }
  pkg=$(dirname $(grep -m1 '^+++ b/' $d/patch.diff | sed 's|^+++ b/||'))
  cp $demo /tmp/confirm_demo_$lane_test.go
  tools/verify_seeded.sh $d/patch.diff $demo "$pkg" > $d/confirm.log 2>&1
  echo "$n: $(tail -1 $d/confirm.log)"
done
