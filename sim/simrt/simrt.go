// Package simrt is the runtime shim compiled into simulation binaries only.
//
// Every lock operation, atomic access, blocking receive and goroutine start in the
// instrumented packages of pion/webrtc is rewritten (by cmd/instr, on an overlay copy)
// into a call into this package. Three modes:
//
//	free    : Lock = TryLock + durable park on a channel (so a synctest bubble can go idle
//	          while somebody waits for a webrtc mutex); Yield = no-op.
//	perturb : as free, plus seeded runtime.Gosched() at sites.
//	plain   : (race-detector runs) every wrapper is the original operation preceded by a
//	          perturbation point; no registry, no shared counter, no atomics — shim-level
//	          synchronisation would give the race detector happens-before edges the program
//	          does not have and hide its races.
//	coop    : a Sched owns the run; goroutines reaching a focused site park and the
//	          scheduler releases exactly one at a time, chosen from its PRNG / script.
package simrt

import (
	"bytes"
	"fmt"
	"math/rand/v2"
	"runtime"
	"sort"
	"strconv"
	"strings"
	"sync"
	"sync/atomic"
	"testing/synctest"
	"time"
	"unsafe"
)

type tryLocker interface {
	TryLock() bool
	Unlock()
}

type tryRLocker interface {
	TryRLock() bool
	RUnlock()
}

type lockInfo struct {
	waiters    []chan struct{}
	wwait      int // writers parked on this lock: like sync.RWMutex, a waiting writer holds back new readers
	holderSite string // site of the most recent successful acquisition
	waitSites  map[string]int
}

var (
	regMu sync.Mutex
	locks = map[unsafe.Pointer]*lockInfo{}

	cur         atomic.Pointer[Sched]
	perturbSeed atomic.Uint64
	perturbCtr  atomic.Uint64

	// Counters (reset by Reset).
	NLock, NLockWait, NYield, NGosched atomic.Int64
	// NRecursiveRLock counts read-lock acquisitions by a scheduler task that already holds the same
	// lock for reading (legal until a writer queues up in between).
	NRecursiveRLock atomic.Int64
)

// Reset forgets every lock waiter and counter. Call between runs (leaked goroutines of an
// earlier, deadlocked bubble stay blocked forever and must not be woken from a new bubble).
func Reset() {
	regMu.Lock()
	locks = map[unsafe.Pointer]*lockInfo{}
	onceHeld = map[unsafe.Pointer]bool{}
	regMu.Unlock()
	cur.Store(nil)
	perturbSeed.Store(0)
	perturbCtr.Store(0)
	NLock.Store(0)
	NLockWait.Store(0)
	NYield.Store(0)
	NGosched.Store(0)
	NRecursiveRLock.Store(0)
}

// Plain switches the shim to plain mode. Set it before any goroutine of the run exists and
// clear it after they are gone (it is a plain variable on purpose).
var Plain bool

// PlainYieldOneIn / PlainSleepOneIn: a perturbation point yields the processor / sleeps for a
// few microseconds with these odds (0 = never). The coin is the runtime's per-thread random
// source (math/rand/v2 top-level functions): not seeded, but free of synchronisation.
var PlainYieldOneIn, PlainSleepOneIn uint64 = 4, 64

func plainPoint() {
	if n := PlainYieldOneIn; n != 0 && rand.Uint64N(n) == 0 {
		runtime.Gosched()
	}
	if n := PlainSleepOneIn; n != 0 && rand.Uint64N(n) == 0 {
		time.Sleep(time.Duration(1+rand.Uint64N(200)) * time.Microsecond)
	}
}

type plainLocker interface{ Lock() }
type plainRLocker interface{ RLock() }

// SetPerturb enables (seed != 0) or disables seeded Gosched perturbation.
func SetPerturb(seed uint64) { perturbSeed.Store(seed) }

func key(m any) unsafe.Pointer {
	switch v := m.(type) {
	case *sync.Mutex:
		return unsafe.Pointer(v)
	case *sync.RWMutex:
		return unsafe.Pointer(v)
	}
	panic("simrt: unknown lock type")
}

func mix(x uint64) uint64 {
	x += 0x9e3779b97f4a7c15
	x = (x ^ (x >> 30)) * 0xbf58476d1ce4e5b9
	x = (x ^ (x >> 27)) * 0x94d049bb133111eb
	return x ^ (x >> 31)
}

func hashStr(s string) uint64 {
	h := uint64(1469598103934665603)
	for i := 0; i < len(s); i++ {
		h ^= uint64(s[i])
		h *= 1099511628211
	}
	return h
}

func sitePoint(site string) {
	if s := cur.Load(); s != nil {
		s.yield(site)
		return
	}
	if ps := perturbSeed.Load(); ps != 0 {
		n := perturbCtr.Add(1)
		if mix(ps^hashStr(site)^(n*0x9e3779b97f4a7c15))%6 == 0 {
			NGosched.Add(1)
			runtime.Gosched()
		}
	}
}

func acquire(k unsafe.Pointer, try func() bool, site string, read bool) {
	NLock.Add(1)
	woken := false
	for {
		if s := cur.Load(); woken && s != nil {
			// a scheduler task woken from a lock wait parks even at an unfocused site: which of
			// several woken waiters gets the lock is then the scheduler's decision, not the runtime's
			s.yieldKnown(site)
		} else {
			sitePoint(site)
		}
		woken = true
		regMu.Lock()
		li := locks[k]
		if !(read && li != nil && li.wwait > 0) && try() {
			if li == nil {
				li = &lockInfo{}
				locks[k] = li
			}
			li.holderSite = site
			regMu.Unlock()
			return
		}
		if li == nil {
			li = &lockInfo{}
			locks[k] = li
		}
		ch := make(chan struct{})
		li.waiters = append(li.waiters, ch)
		if li.waitSites == nil {
			li.waitSites = map[string]int{}
		}
		li.waitSites[site]++
		if !read {
			li.wwait++
		}
		regMu.Unlock()
		NLockWait.Add(1)
		if s := cur.Load(); s != nil {
			s.blockOn(site, li)
		}
		<-ch
		regMu.Lock()
		if !read {
			li.wwait--
		}
		li.waitSites[site]--
		if li.waitSites[site] <= 0 {
			delete(li.waitSites, site)
		}
		regMu.Unlock()
		if s := cur.Load(); s != nil {
			s.unblock()
		}
	}
}

func release(k unsafe.Pointer) {
	regMu.Lock()
	li := locks[k]
	var ws []chan struct{}
	if li != nil {
		ws = li.waiters
		li.waiters = nil
	}
	regMu.Unlock()
	for _, ch := range ws {
		close(ch)
	}
}

// Lock replaces X.Lock() for sync.Mutex and sync.RWMutex.
func Lock(m tryLocker, site string) {
	if Plain {
		plainPoint()
		m.(plainLocker).Lock()
		return
	}
	acquire(key(m), m.TryLock, site, false)
}

// afterRelease is a schedule point right after a critical section ends (coop mode only): a
// task can be preempted between releasing a lock and whatever it does next with the state it
// read under the lock.
func afterRelease(site string) {
	if s := cur.Load(); s != nil {
		s.yield(site)
	}
}

// Unlock replaces X.Unlock().
func Unlock(m tryLocker, site string) {
	if Plain {
		m.Unlock()
		return
	}
	k := key(m)
	m.Unlock()
	release(k)
	afterRelease(site)
}

// RLock replaces X.RLock().
func RLock(m tryRLocker, site string) {
	if Plain {
		plainPoint()
		m.(plainRLocker).RLock()
		return
	}
	k := key(m)
	var t *Task
	if s := cur.Load(); s != nil && goid() != s.mainG {
		if t = s.taskOf(false); t != nil && t.rheld[k] > 0 {
			// A task that reads-locks a lock it already holds for reading deadlocks as soon as a writer
			// queues up in between (sync.RWMutex gives waiting writers precedence). That window is a few
			// instructions wide; the scheduler widens it: the task is held back for a number of steps
			// while others run, so that a writer, if the program has one, gets there. Which task runs is
			// all this changes: every schedule it produces is one the program allows.
			NRecursiveRLock.Add(1)
			s.mu.Lock()
			t.holdoff = 60
			s.mu.Unlock()
			s.yieldKnown(site)
		}
	}
	acquire(k, m.TryRLock, site, true)
	if t != nil {
		if t.rheld == nil {
			t.rheld = map[unsafe.Pointer]int{}
		}
		t.rheld[k]++
	}
}

// RUnlock replaces X.RUnlock().
func RUnlock(m tryRLocker, site string) {
	if Plain {
		m.RUnlock()
		return
	}
	k := key(m)
	if s := cur.Load(); s != nil && goid() != s.mainG {
		if t := s.taskOf(false); t != nil && t.rheld[k] > 0 {
			t.rheld[k]--
		}
	}
	m.RUnlock()
	release(k)
	afterRelease(site)
}

var onceHeld = map[unsafe.Pointer]bool{}

// OnceDo replaces `go X.Do(f)` on a sync.Once. Concurrent Do calls on one Once wait for each
// other on the Once's internal mutex, which is not a durable block inside a bubble (and the
// running one may be parked by the scheduler): callers are serialised here first, waiting durably.
func OnceDo(o *sync.Once, f func(), site string) {
	if Plain {
		plainPoint()
		o.Do(f)
		return
	}
	k := unsafe.Pointer(o)
	acquire(k, func() bool { // called with regMu held
		if onceHeld[k] {
			return false
		}
		onceHeld[k] = true
		return true
	}, site, false)
	defer func() {
		regMu.Lock()
		delete(onceHeld, k)
		regMu.Unlock()
		release(k)
		afterRelease(site)
	}()
	o.Do(f)
}

// Yield is a schedule point inserted before atomics, after blocking receives and at
// goroutine starts.
func Yield(site string) {
	if Plain {
		plainPoint()
		return
	}
	NYield.Add(1)
	sitePoint(site)
}

// BlockedReport lists every webrtc-level lock somebody is waiting for.
func BlockedReport() []string {
	regMu.Lock()
	defer regMu.Unlock()
	var out []string
	for _, li := range locks {
		for ws, n := range li.waitSites {
			if n > 0 {
				out = append(out, fmt.Sprintf("%d waiter(s) at %s for lock last taken at %s", n, ws, li.holderSite))
			}
		}
	}
	sort.Strings(out)
	return out
}

func goid() int64 {
	var b [64]byte
	n := runtime.Stack(b[:], false)
	f := bytes.Fields(b[:n])
	id, _ := strconv.ParseInt(string(f[1]), 10, 64)
	return id
}

// ---------------------------------------------------------------- cooperative scheduler

// Task is one goroutine known to the scheduler.
type Task struct {
	ID      int
	Name    string
	site    string
	parked  bool
	done    bool
	adopted bool
	blocked string // non-empty: waiting for a webrtc lock, text describes it
	resume  chan struct{}
	prio    int
	rheld   map[unsafe.Pointer]int // read locks this task holds (touched by the task's own goroutine only)
	holdoff int                    // steps for which the scheduler prefers any other runnable task
}

// Step is one scheduling decision.
type Step struct {
	Task int    `json:"t"`
	Site string `json:"s"`
}

// Strategy of the scheduler.
type Strategy struct {
	Kind   string  `json:"kind"`   // "walk", "sticky", "pct"
	Stick  float64 `json:"stick"`  // sticky: probability to keep the running task
	Depth  int     `json:"depth"`  // pct: number of priority change points
	Horiz  int     `json:"horiz"`  // pct: step horizon in which change points are drawn
	Script []int   `json:"script"` // replay: task ids to release, in order; then lowest-id/no-preemption
	UseScr bool    `json:"use_script"`
}

// Sched is the cooperative scheduler.
type Sched struct {
	mu      sync.Mutex
	byG     map[int64]*Task
	tasks   []*Task
	rng     uint64
	focus   []string
	strat   Strategy
	reg     int
	last    *Task
	stepNo  int
	changes map[int]bool
	scrPos  int

	Trace      []Step
	Preempts   int
	ScriptMiss int
	// OnStep, if set, runs on the scheduler goroutine at every quiescent point (before each
	// release): harness samplers read state here.
	OnStep func()
	mainG  int64
}

// NewSched installs a scheduler. focus is a list of site prefixes ("file.go" or
// "file.go:Func"); empty means every site.
func NewSched(seed uint64, strat Strategy, focus ...string) *Sched {
	s := &Sched{byG: map[int64]*Task{}, rng: mix(seed) | 1, focus: focus, strat: strat, mainG: goid()}
	if strat.Kind == "pct" {
		s.changes = map[int]bool{}
		h := strat.Horiz
		if h <= 0 {
			h = 50
		}
		for i := 0; i < strat.Depth; i++ {
			s.changes[s.next(h)] = true
		}
	}
	cur.Store(s)
	return s
}

func (s *Sched) next(n int) int {
	s.rng ^= s.rng << 13
	s.rng ^= s.rng >> 7
	s.rng ^= s.rng << 17
	return int((s.rng >> 11) % uint64(n))
}

func (s *Sched) focused(site string) bool {
	if len(s.focus) == 0 {
		return true
	}
	for _, f := range s.focus {
		if strings.HasPrefix(site, f) {
			return true
		}
	}
	return false
}

// Go starts a harness task.
func (s *Sched) Go(name string, f func()) *Task {
	s.mu.Lock()
	t := &Task{ID: len(s.tasks), Name: name, resume: make(chan struct{})}
	t.prio = 1000 + s.next(1000000)
	s.tasks = append(s.tasks, t)
	s.reg++
	s.mu.Unlock()
	go func() {
		g := goid()
		s.mu.Lock()
		s.byG[g] = t
		s.mu.Unlock()
		s.park(t, "start:"+name)
		defer func() {
			s.mu.Lock()
			t.done = true
			s.reg--
			delete(s.byG, g)
			s.mu.Unlock()
		}()
		f()
	}()
	return t
}

func (s *Sched) park(t *Task, site string) {
	s.mu.Lock()
	t.site = site
	t.parked = true
	s.mu.Unlock()
	<-t.resume
}

func (s *Sched) taskOf(create bool) *Task {
	g := goid()
	s.mu.Lock()
	defer s.mu.Unlock()
	t := s.byG[g]
	if t == nil && create {
		t = &Task{ID: len(s.tasks), Name: "adopted", adopted: true, resume: make(chan struct{})}
		t.prio = 1000 + s.next(1000000)
		s.tasks = append(s.tasks, t)
		s.byG[g] = t
	}
	return t
}

func (s *Sched) yield(site string) {
	if cur.Load() != s || !s.focused(site) {
		return
	}
	if goid() == s.mainG {
		return // the scheduler's own goroutine (harness code calling instrumented functions) never parks
	}
	t := s.taskOf(true)
	s.park(t, site)
}

// yieldKnown parks the calling goroutine if it already is a scheduler task (focus is ignored).
func (s *Sched) yieldKnown(site string) {
	if cur.Load() != s || goid() == s.mainG {
		return
	}
	if t := s.taskOf(false); t != nil {
		s.park(t, site)
	} else if s.focused(site) {
		s.park(s.taskOf(true), site)
	}
}

func (s *Sched) blockOn(site string, li *lockInfo) {
	if t := s.taskOf(false); t != nil {
		s.mu.Lock()
		t.blocked = "at " + site + " for lock last taken at " + li.holderSite
		s.mu.Unlock()
	}
}

func (s *Sched) unblock() {
	if t := s.taskOf(false); t != nil {
		s.mu.Lock()
		t.blocked = ""
		s.mu.Unlock()
	}
}

// Pending reports the number of unfinished harness tasks.
func (s *Sched) Pending() int {
	s.mu.Lock()
	defer s.mu.Unlock()
	return s.reg
}

// Unfinished describes harness tasks that have not returned.
func (s *Sched) Unfinished() []string {
	s.mu.Lock()
	defer s.mu.Unlock()
	var out []string
	for _, t := range s.tasks {
		if !t.done && !t.adopted {
			st := "blocked outside any instrumented lock (channel/WaitGroup), last site " + t.site
			if t.blocked != "" {
				st = "waiting " + t.blocked
			}
			if t.parked {
				st = "parked at " + t.site
			}
			out = append(out, fmt.Sprintf("task %d %s: %s", t.ID, t.Name, st))
		}
	}
	return out
}

// StepOnce releases one parked task. The caller must have called synctest.Wait() first.
func (s *Sched) StepOnce() (progress bool) {
	s.mu.Lock()
	var p []*Task
	for _, t := range s.tasks {
		if t.parked {
			p = append(p, t)
		}
	}
	if len(p) == 0 {
		s.mu.Unlock()
		return false
	}
	if !s.strat.UseScr {
		// tasks held back (see RLock) give way while anybody else can run
		var q []*Task
		for _, t := range p {
			if t.holdoff > 0 {
				t.holdoff--
			} else {
				q = append(q, t)
			}
		}
		if len(q) > 0 {
			if len(q) < len(p) && s.last != nil && s.last.parked && s.last.holdoff > 0 {
				s.last = nil // (the held-back task is not "the running one" for the sticky / pct rules)
			}
			p = q
		}
	}
	var pick *Task
	lastParked := s.last != nil && s.last.parked
	switch {
	case s.strat.UseScr:
		for pick == nil && s.scrPos < len(s.strat.Script) {
			id := s.strat.Script[s.scrPos]
			s.scrPos++
			for _, t := range p {
				if t.ID == id {
					pick = t
				}
			}
			if pick == nil {
				s.ScriptMiss++
			}
		}
		if pick == nil {
			if lastParked {
				pick = s.last
			} else {
				pick = p[0]
			}
		}
	case s.strat.Kind == "pct":
		if s.changes[s.stepNo] && lastParked {
			s.last.prio = -s.stepNo // lowest so far
		}
		for _, t := range p {
			if pick == nil || t.prio > pick.prio {
				pick = t
			}
		}
	case s.strat.Kind == "sticky":
		if lastParked && float64(s.next(1000))/1000 < s.strat.Stick {
			pick = s.last
		} else {
			pick = p[s.next(len(p))]
		}
	default:
		pick = p[s.next(len(p))]
	}
	if lastParked && pick != s.last {
		s.Preempts++
	}
	s.stepNo++
	s.last = pick
	pick.parked = false
	s.Trace = append(s.Trace, Step{pick.ID, pick.site})
	s.mu.Unlock()
	pick.resume <- struct{}{}
	return true
}

// Run drives the tasks until all harness tasks are done and nothing is parked, or until the
// system is stuck. It must be called from the bubble's main goroutine. quantum is the fake
// time slept when nothing is runnable (lets timers fire); maxIdle bounds consecutive idle
// rounds. Returns "done", "stuck" (unfinished tasks, nothing runnable) or "steps".
func (s *Sched) Run(maxSteps int, quantum time.Duration, maxIdle int) string {
	idle := 0
	for i := 0; i < maxSteps; i++ {
		synctest.Wait()
		if s.OnStep != nil {
			s.OnStep()
		}
		if s.StepOnce() {
			idle = 0
			continue
		}
		if s.Pending() == 0 && idle >= 1 {
			return "done"
		}
		idle++
		if idle > maxIdle {
			if s.Pending() == 0 {
				return "done"
			}
			return "stuck"
		}
		time.Sleep(quantum)
	}
	return "steps"
}

// Stop uninstalls the scheduler and lets every parked goroutine run free.
func (s *Sched) Stop() {
	cur.CompareAndSwap(s, nil)
	s.mu.Lock()
	var p []*Task
	for _, t := range s.tasks {
		if t.parked {
			t.parked = false
			p = append(p, t)
		}
	}
	s.mu.Unlock()
	for _, t := range p {
		t.resume <- struct{}{}
	}
}

// Choices returns the released task ids in order (the replayable schedule).
func (s *Sched) Choices() []int {
	out := make([]int, len(s.Trace))
	for i, st := range s.Trace {
		out[i] = st.Task
	}
	return out
}

// StopIf stops the scheduler when the run ended normally. After a stuck or step-bounded run the
// parked goroutines are deliberately left parked (a released task could spin forever outside the
// scheduler and keep the bubble from ever going idle); they leak, blocked, with the bubble.
func (s *Sched) StopIf(done bool) {
	if done {
		s.Stop()
	}
}
