module verifsim

go 1.25.0
