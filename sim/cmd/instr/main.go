// Command instr writes instrumented copies of the non-test, non-js Go files of the given
// package directories and an overlay.json for `go build -overlay`.
//
//	instr -out DIR [-add dst=src ...] PKGDIR...
//
// Rewrites (purely syntactic):
//
//	X.Lock()/Unlock()/RLock()/RUnlock() statements and defers -> simrt.<Op>(&X, site)
//	statement containing an atomic access  -> simrt.Yield(site) inserted before it
//	<-ch statement, v := <-ch, wg.Wait()   -> simrt.Yield(site) inserted after it
//	select                                 -> simrt.Yield(site) first in every comm clause
//	go func(){...}()                       -> simrt.Yield(site) first in the literal
//
// Site strings are "file.go:Func:line".
package main

import (
	"bytes"
	"encoding/json"
	"flag"
	"fmt"
	"go/ast"
	"go/build/constraint"
	"go/format"
	"go/parser"
	"go/token"
	"os"
	"path/filepath"
	"strings"
)

var atomicNames = map[string]bool{"Load": true, "Store": true, "Swap": true, "CompareAndSwap": true, "Add": true}

type addFlag []string

func (a *addFlag) String() string     { return strings.Join(*a, ",") }
func (a *addFlag) Set(s string) error { *a = append(*a, s); return nil }

// headerHasAtomic reports whether the statement itself (not nested blocks or func literals)
// contains an atomic-looking call.
func headerHasAtomic(n ast.Node) bool {
	found := false
	ast.Inspect(n, func(x ast.Node) bool {
		if found {
			return false
		}
		switch v := x.(type) {
		case *ast.FuncLit:
			return false
		case *ast.BlockStmt:
			if x != n {
				return false
			}
		case *ast.CallExpr:
			if s, ok := v.Fun.(*ast.SelectorExpr); ok {
				if id, ok := s.X.(*ast.Ident); ok && id.Name == "atomic" {
					found = true
				} else if atomicNames[s.Sel.Name] && s.Sel.Name != "Add" {
					found = true
				} else if s.Sel.Name == "Add" && len(v.Args) == 1 {
					// x.Add(n) on atomic ints; also matches WaitGroup.Add, harmless
					found = true
				}
			}
		}
		return true
	})
	return found
}

func isRecv(e ast.Expr) bool {
	u, ok := e.(*ast.UnaryExpr)
	return ok && u.Op == token.ARROW
}

func isBlockingStmt(st ast.Stmt) bool {
	switch s := st.(type) {
	case *ast.ExprStmt:
		if isRecv(s.X) {
			return true
		}
		if c, ok := s.X.(*ast.CallExpr); ok && len(c.Args) == 0 {
			if sel, ok := c.Fun.(*ast.SelectorExpr); ok && sel.Sel.Name == "Wait" {
				return true
			}
		}
	case *ast.AssignStmt:
		if len(s.Rhs) == 1 && isRecv(s.Rhs[0]) {
			return true
		}
	}
	return false
}

type instr struct {
	fset           *token.FileSet
	file           string
	fn             string
	nLock, nYield  int
	skippedLockish int
}

func (in *instr) site(pos token.Pos) ast.Expr {
	p := in.fset.Position(pos)
	return &ast.BasicLit{Kind: token.STRING, Value: fmt.Sprintf("%q", fmt.Sprintf("%s:%s:%d", in.file, in.fn, p.Line))}
}

func (in *instr) yieldStmt(pos token.Pos) ast.Stmt {
	in.nYield++
	return &ast.ExprStmt{X: &ast.CallExpr{
		Fun:  &ast.SelectorExpr{X: ast.NewIdent("simrt"), Sel: ast.NewIdent("Yield")},
		Args: []ast.Expr{in.site(pos)},
	}}
}

func (in *instr) fixList(list []ast.Stmt) []ast.Stmt {
	var res []ast.Stmt
	for _, st := range list {
		if _, isGo := st.(*ast.GoStmt); isGo {
			res = append(res, st)
			continue
		}
		if _, isDefer := st.(*ast.DeferStmt); isDefer {
			res = append(res, st)
			continue
		}
		switch st.(type) {
		case *ast.ExprStmt, *ast.AssignStmt, *ast.IfStmt, *ast.ReturnStmt, *ast.SwitchStmt, *ast.IncDecStmt:
			if headerHasAtomic(st) {
				res = append(res, in.yieldStmt(st.Pos()))
			}
		}
		res = append(res, st)
		if isBlockingStmt(st) {
			res = append(res, in.yieldStmt(st.Pos()))
		}
	}
	return res
}

func (in *instr) rewriteLock(call *ast.CallExpr) {
	if call == nil || len(call.Args) != 0 {
		return
	}
	sel, ok := call.Fun.(*ast.SelectorExpr)
	if !ok {
		return
	}
	switch sel.Sel.Name {
	case "Lock", "Unlock", "RLock", "RUnlock":
	default:
		return
	}
	pos := call.Pos()
	recv := sel.X
	call.Fun = &ast.SelectorExpr{X: ast.NewIdent("simrt"), Sel: ast.NewIdent(sel.Sel.Name)}
	call.Args = []ast.Expr{&ast.UnaryExpr{Op: token.AND, X: recv}, in.site(pos)}
	in.nLock++
}

func (in *instr) walkFunc(body *ast.BlockStmt) {
	if body == nil {
		return
	}
	ast.Inspect(body, func(nd ast.Node) bool {
		switch b := nd.(type) {
		case *ast.BlockStmt:
			b.List = in.fixList(b.List)
		case *ast.CaseClause:
			b.Body = in.fixList(b.Body)
		case *ast.CommClause:
			b.Body = in.fixList(b.Body)
			pos := b.Pos()
			b.Body = append([]ast.Stmt{in.yieldStmt(pos)}, b.Body...)
		}
		return true
	})
	// second pass: go-literal entry yields and lock rewriting
	ast.Inspect(body, func(nd ast.Node) bool {
		switch s := nd.(type) {
		case *ast.GoStmt:
			if fl, ok := s.Call.Fun.(*ast.FuncLit); ok {
				fl.Body.List = append([]ast.Stmt{in.yieldStmt(s.Pos())}, fl.Body.List...)
			}
			// go X.someOnce.Do(f)  ->  go simrt.OnceDo(&X.someOnce, f, site)
			if sel, ok := s.Call.Fun.(*ast.SelectorExpr); ok && sel.Sel.Name == "Do" && len(s.Call.Args) == 1 {
				if rs, ok := sel.X.(*ast.SelectorExpr); ok && strings.HasSuffix(rs.Sel.Name, "Once") {
					pos := s.Call.Pos()
					s.Call.Fun = &ast.SelectorExpr{X: ast.NewIdent("simrt"), Sel: ast.NewIdent("OnceDo")}
					s.Call.Args = []ast.Expr{&ast.UnaryExpr{Op: token.AND, X: sel.X}, s.Call.Args[0], in.site(pos)}
					in.nLock++
				}
			}
		case *ast.ExprStmt:
			if c, ok := s.X.(*ast.CallExpr); ok {
				in.rewriteLock(c)
			}
		case *ast.DeferStmt:
			in.rewriteLock(s.Call)
		case *ast.CallExpr:
			// a lock call that is not a statement (rare): counted, left alone
			if sel, ok := s.Fun.(*ast.SelectorExpr); ok && len(s.Args) == 0 {
				switch sel.Sel.Name {
				case "Lock", "RLock":
					in.skippedLockish++
				}
			}
		}
		return true
	})
}

func buildOK(f *ast.File) bool {
	for _, cg := range f.Comments {
		if cg.Pos() > f.Package {
			break
		}
		for _, c := range cg.List {
			if constraint.IsGoBuild(c.Text) {
				ex, err := constraint.Parse(c.Text)
				if err != nil {
					continue
				}
				if !ex.Eval(func(tag string) bool {
					return tag == "linux" || tag == "amd64" || tag == "verif" || tag == "unix" || tag == "gc" || strings.HasPrefix(tag, "go1.")
				}) {
					return false
				}
			}
		}
	}
	return true
}

func main() {
	var adds addFlag
	out := flag.String("out", "", "output directory")
	flag.Var(&adds, "add", "dst=src: add (or replace) file dst with the contents of src")
	flag.Parse()
	if *out == "" || flag.NArg() == 0 {
		fmt.Fprintln(os.Stderr, "usage: instr -out DIR [-add dst=src] PKGDIR...")
		os.Exit(2)
	}
	overlay := map[string]string{}
	totalLock, totalYield, totalSkipped, files := 0, 0, 0, 0
	for di, src := range flag.Args() {
		ents, err := os.ReadDir(src)
		if err != nil {
			fmt.Fprintln(os.Stderr, "instr:", err)
			os.Exit(2)
		}
		sub := filepath.Join(*out, fmt.Sprintf("p%d", di))
		if err := os.MkdirAll(sub, 0o755); err != nil {
			fmt.Fprintln(os.Stderr, "instr:", err)
			os.Exit(2)
		}
		for _, e := range ents {
			name := e.Name()
			if e.IsDir() || !strings.HasSuffix(name, ".go") || strings.HasSuffix(name, "_test.go") ||
				strings.HasSuffix(name, "_js.go") || strings.HasSuffix(name, "_wasm.go") {
				continue
			}
			path := filepath.Join(src, name)
			fset := token.NewFileSet()
			f, err := parser.ParseFile(fset, path, nil, parser.ParseComments)
			if err != nil {
				fmt.Fprintln(os.Stderr, "instr: parse:", err)
				os.Exit(2)
			}
			if !buildOK(f) {
				continue
			}
			in := &instr{fset: fset, file: name}
			for _, d := range f.Decls {
				fd, ok := d.(*ast.FuncDecl)
				if !ok {
					continue
				}
				in.fn = fd.Name.Name
				in.walkFunc(fd.Body)
			}
			// package-level func literals (var x = func(){...}) are rare; ignored.
			totalSkipped += in.skippedLockish
			if in.nLock+in.nYield == 0 {
				continue
			}
			imp := &ast.ImportSpec{Path: &ast.BasicLit{Kind: token.STRING, Value: `"verifsim/simrt"`}}
			added := false
			for _, d := range f.Decls {
				if gd, ok := d.(*ast.GenDecl); ok && gd.Tok == token.IMPORT {
					gd.Specs = append(gd.Specs, imp)
					if !gd.Lparen.IsValid() {
						gd.Lparen = gd.Pos()
						gd.Rparen = gd.End()
					}
					added = true
					break
				}
			}
			if !added {
				fmt.Fprintln(os.Stderr, "instr: no import declaration in", path)
				os.Exit(2)
			}
			var buf bytes.Buffer
			if err := format.Node(&buf, fset, f); err != nil {
				fmt.Fprintln(os.Stderr, "instr: format:", path, err)
				os.Exit(2)
			}
			op := filepath.Join(sub, name)
			if err := os.WriteFile(op, buf.Bytes(), 0o644); err != nil {
				fmt.Fprintln(os.Stderr, "instr:", err)
				os.Exit(2)
			}
			overlay[path] = op
			totalLock += in.nLock
			totalYield += in.nYield
			files++
		}
	}
	for _, a := range adds {
		i := strings.IndexByte(a, '=')
		if i < 0 {
			fmt.Fprintln(os.Stderr, "instr: bad -add", a)
			os.Exit(2)
		}
		overlay[a[:i]] = a[i+1:]
	}
	b, _ := json.MarshalIndent(map[string]any{"Replace": overlay}, "", " ")
	if err := os.WriteFile(filepath.Join(*out, "overlay.json"), b, 0o644); err != nil {
		fmt.Fprintln(os.Stderr, "instr:", err)
		os.Exit(2)
	}
	stats, _ := json.Marshal(map[string]int{"locks": totalLock, "yields": totalYield, "files": files, "unrewritten_lock_exprs": totalSkipped})
	_ = os.WriteFile(filepath.Join(*out, "instr_stats.json"), stats, 0o644)
	fmt.Println(string(stats))
}
