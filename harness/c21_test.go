//go:build !js

package webrtc

// C21 (Engine B, free mode): Close is idempotent, concurrency-safe and final.
//
// A real PeerConnection pair on the simulated network is brought to a generated point of its
// life (nothing negotiated, offer applied and gathering, ICE/DTLS in progress, connected, data
// flowing) and 1-4 goroutines call Close / GracefulClose on peer A at generated fake-time
// offsets, optionally while another goroutine keeps calling the mutating API and while A's
// event handlers take fake time (a handler runs on one of the connection's own goroutines).
//
// Oracles: every call returns; the state is then final (signaling closed, connection closed,
// every mutating call fails with InvalidStateError); the connection-state handler reports
// nothing after closed; and when a GracefulClose returns, no goroutine started by peer A is
// alive at the next quiescent instant. Goroutines are attributed to a peer with pprof labels
// (inherited by every goroutine a labelled goroutine starts), the census is the runtime's
// goroutine profile, read after a 1 ns fake sleep: fake time only advances when every
// goroutine of the bubble is durably blocked, so what is alive then is not "just exiting".

import (
	"bytes"
	"context"
	"encoding/json"
	"errors"
	"fmt"
	"runtime/pprof"
	"sort"
	"strings"
	"sync"
	"sync/atomic"
	"testing"
	"time"

	"github.com/pion/rtp"
	"github.com/pion/webrtc/v4/pkg/rtcerr"
	"verifsim/simrt"
)

type c21Closer struct {
	Graceful bool `json:"g,omitempty"`
	DelayMs  int  `json:"delay_ms,omitempty"`
}

type c21Case struct {
	Phase     string      `json:"phase"` // new | offered | ice | connected | data
	BOffers   bool        `json:"b_offers,omitempty"`
	Closers   []c21Closer `json:"closers"`
	HandlerMs int         `json:"handler_ms,omitempty"` // A's event handlers take this much fake time
	MsgMs     int         `json:"msg_ms,omitempty"`     // phase data: B sends to A as well, and A's OnMessage handler takes this much fake time
	WithMedia bool        `json:"with_media,omitempty"`
	RecvOnly  bool        `json:"recv_only,omitempty"` // the peer also owns receive-only audio and video transceivers (no sender attached)
	Busy      bool        `json:"busy,omitempty"`      // another goroutine keeps calling the mutating API on A while it is closed
	DelayUs   int         `json:"delay_us"`
	NetSeed   uint64      `json:"net_seed"`
	// Coop: the close calls are tasks of the seeded cooperative scheduler (scheduling points at every
	// lock/atomic site of the close path); no goroutine census in this mode
	Coop      bool           `json:"coop,omitempty"`
	SchedSeed uint64         `json:"sched_seed,omitempty"`
	Strat     simrt.Strategy `json:"strat"`
}

func c21Gen(seed uint64, idx, total int, tier string) any {
	r := vfNewRand(seed, "c21")
	c := &c21Case{Phase: vfPick(r, []string{"new", "offered", "ice", "ice", "connected", "connected", "data", "data"}), BOffers: r.Bool(0.4),
		HandlerMs: vfPick(r, []int{0, 0, 3, 40, 700}), WithMedia: r.Bool(0.4), RecvOnly: r.Bool(0.5), Busy: r.Bool(0.4), DelayUs: vfPick(r, []int{0, 500, 5000}), NetSeed: r.U64()}
	n := r.Range(1, 4)
	for i := 0; i < n; i++ {
		c.Closers = append(c.Closers, c21Closer{Graceful: r.Bool(0.55), DelayMs: vfPick(r, []int{0, 0, 0, 1, 2, 10, 50, 300, 1500})})
	}
	c.MsgMs = vfPick(r, []int{0, 0, 20, 200, 1500})
	return c
}

var rtpPacketForC21 = rtp.Packet{Header: rtp.Header{Version: 2, PayloadType: 96, SSRC: 1}, Payload: []byte{1, 2, 3, 4}}

func c21GenCoop(seed uint64, idx, total int, tier string) any {
	c := c21Gen(seed, idx, total, tier).(*c21Case)
	r := vfNewRand(seed, "c21coop")
	c.Coop, c.SchedSeed, c.Strat = true, r.U64(), vfGenStrategy(r)
	if len(c.Closers) < 2 {
		c.Closers = append(c.Closers, c21Closer{Graceful: r.Bool(0.5)})
	}
	for i := range c.Closers {
		c.Closers[i].DelayMs = vfPick(r, []int{0, 0, 0, 1, 5}) // overlapping calls are the point here
	}
	if c.HandlerMs > 40 {
		c.HandlerMs = 40
	}
	if c.MsgMs > 40 {
		c.MsgMs = 40
	}
	return c
}

var c21Runs atomic.Int64

func vfAs(label string, f func()) {
	pprof.Do(context.Background(), pprof.Labels("vfpc", label), func(context.Context) { f() })
}

// c21Census returns the entry functions (with counts) of the goroutines that carry the given
// label and were started by pion code (not by this harness, not by the simulated network).
func c21Census(label string) []string {
	var b bytes.Buffer
	_ = pprof.Lookup("goroutine").WriteTo(&b, 1)
	var out []string
	for _, blk := range strings.Split(b.String(), "\n\n") {
		if !strings.Contains(blk, "\"vfpc\":\""+label+"\"") {
			continue
		}
		var frames []string
		for _, l := range strings.Split(blk, "\n") {
			if strings.HasPrefix(l, "#\t0x") {
				f := strings.Fields(l)
				if len(f) >= 3 {
					fn := f[2]
					if i := strings.LastIndex(fn, "+0x"); i > 0 {
						fn = fn[:i]
					}
					frames = append(frames, fn)
				}
			}
		}
		if len(frames) == 0 {
			continue
		}
		entry := frames[len(frames)-1]
		if strings.Contains(entry, "/webrtc/v4.c21") || strings.Contains(entry, "/webrtc/v4.vf") || strings.Contains(entry, "/webrtc/v4.(*vf") || strings.Contains(entry, "/vnet.") || !strings.Contains(entry, "github.com/pion/") {
			continue
		}
		// where it is blocked: the innermost pion frame
		at := frames[0]
		for _, f := range frames {
			if strings.Contains(f, "github.com/pion/") {
				at = f
				break
			}
		}
		n := strings.Fields(blk)[0]
		short := func(s string) string { return strings.TrimPrefix(s, "github.com/pion/") }
		out = append(out, fmt.Sprintf("%s x%s (in %s)", short(entry), n, short(at)))
	}
	sort.Strings(out)
	return out
}

func c21Run(t *testing.T, cj []byte, res *vfResult) {
	var c c21Case
	if err := json.Unmarshal(cj, &c); err != nil {
		res.Verdict, res.Detail = "error", err.Error()
		return
	}
	if len(c.Closers) == 0 || len(c.Closers) > 8 {
		res.Verdict, res.Detail = "error", "closers out of range"
		return
	}
	// (labels are unique per run: a goroutine that an earlier run of this worker process left behind,
	// asleep in a bubble that no longer exists, is not one of this connection's)
	run := c21Runs.Add(1)
	labA, labB := fmt.Sprintf("A#%d", run), fmt.Sprintf("B#%d", run)
	var lines []string
	var mu sync.Mutex
	var trace []simrt.Step
	preempts := 0
	logf := func(f string, a ...any) {
		mu.Lock()
		lines = append(lines, fmt.Sprintf(f, a...))
		mu.Unlock()
	}
	vfBubble(t, func(t *testing.T) {
		t0 := time.Now()
		nw, err := vfNewNetSim(c.NetSeed, vfNetCfg{BaseDelayUs: c.DelayUs})
		if err != nil {
			res.Verdict, res.Detail = "error", err.Error()
			return
		}
		ha, _ := nw.addHost("10.0.1.2")
		hb, _ := nw.addHost("10.0.2.2")
		_ = nw.Start()
		var a, b *vfPeer
		vfAs(labA, func() { a, err = vfNewPeer("A", ha) })
		if err != nil {
			res.Verdict, res.Detail = "error", err.Error()
			return
		}
		vfAs(labB, func() { b, err = vfNewPeer("B", hb) })
		if err != nil {
			res.Verdict, res.Detail = "error", err.Error()
			return
		}
		defer func() {
			vfAs(labA, func() { _ = a.pc.Close() })
			vfAs(labB, func() { _ = b.pc.Close() })
			nw.Stop()
			res.SimNs = int64(time.Since(t0))
		}()
		var bdc atomic.Pointer[DataChannel]
		b.pc.OnDataChannel(func(d *DataChannel) { // (without a handler pion closes announced channels)
			if d.Label() == "d" {
				bdc.Store(d)
			}
		})
		// A's handlers: slow, and the connection-state one records what it is told
		var connSeq []PeerConnectionState
		nap := func() {
			if c.HandlerMs > 0 {
				time.Sleep(time.Duration(c.HandlerMs) * time.Millisecond)
			}
		}
		a.pc.OnConnectionStateChange(func(s PeerConnectionState) {
			mu.Lock()
			connSeq = append(connSeq, s)
			mu.Unlock()
			nap()
		})
		a.pc.OnICEConnectionStateChange(func(ICEConnectionState) { nap() })
		a.pc.OnNegotiationNeeded(func() { nap() })
		a.pc.OnSignalingStateChange(func(SignalingState) { nap() })
		a.pc.OnICECandidate(func(*ICECandidate) { nap() })
		a.pc.OnDataChannel(func(d *DataChannel) { nap() })
		var dc *DataChannel
		var sender *RTPSender
		var track *TrackLocalStaticRTP
		vfAs(labA, func() {
			dc, err = a.pc.CreateDataChannel("d", nil)
			if err == nil && c.MsgMs > 0 {
				dc.OnMessage(func(DataChannelMessage) { time.Sleep(time.Duration(c.MsgMs) * time.Millisecond) })
			}
			if err == nil && c.WithMedia {
				track, _ = NewTrackLocalStaticRTP(RTPCodecCapability{MimeType: MimeTypeVP8, ClockRate: 90000}, "t", "s")
				sender, _ = a.pc.AddTrack(track)
			}
			if err == nil && c.RecvOnly {
				_, _ = a.pc.AddTransceiverFromKind(RTPCodecTypeVideo, RTPTransceiverInit{Direction: RTPTransceiverDirectionRecvonly})
				_, _ = a.pc.AddTransceiverFromKind(RTPCodecTypeAudio, RTPTransceiverInit{Direction: RTPTransceiverDirectionRecvonly})
			}
		})
		if err != nil {
			res.Verdict, res.Detail = "error", err.Error()
			return
		}
		// ---- bring the pair to the chosen point
		step := func(who *vfPeer, f func() error) error {
			var e error
			vfAs(map[string]string{"A": labA, "B": labB}[who.name], func() { e = f() })
			return e
		}
		exchange := func() error {
			off, ans := a, b
			if c.BOffers {
				off, ans = b, a
				// B needs something to offer
				if e := step(b, func() error { _, e := b.pc.CreateDataChannel("bd", nil); return e }); e != nil {
					return e
				}
			}
			var offer, answer SessionDescription
			if e := step(off, func() (e error) { offer, e = off.pc.CreateOffer(nil); return }); e != nil {
				return e
			}
			if e := step(off, func() error { return off.pc.SetLocalDescription(offer) }); e != nil {
				return e
			}
			full := vfGatherDone(off)
			if full == nil {
				return fmt.Errorf("no offer after gathering")
			}
			if e := step(ans, func() error { return ans.pc.SetRemoteDescription(*full) }); e != nil {
				return e
			}
			if e := step(ans, func() (e error) { answer, e = ans.pc.CreateAnswer(nil); return }); e != nil {
				return e
			}
			if e := step(ans, func() error { return ans.pc.SetLocalDescription(answer) }); e != nil {
				return e
			}
			fullB := vfGatherDone(ans)
			if fullB == nil {
				return fmt.Errorf("no answer after gathering")
			}
			return step(off, func() error { return off.pc.SetRemoteDescription(*fullB) })
		}
		switch c.Phase {
		case "new":
		case "offered":
			err = step(a, func() error {
				o, e := a.pc.CreateOffer(nil)
				if e != nil {
					return e
				}
				return a.pc.SetLocalDescription(o)
			})
		default:
			err = exchange()
		}
		if err != nil {
			res.Verdict, res.Detail = "error", "setup: "+err.Error()
			return
		}
		if c.Phase == "connected" || c.Phase == "data" {
			if !vfWaitFor(60*time.Second, func() bool {
				return a.pc.ConnectionState() == PeerConnectionStateConnected && b.pc.ConnectionState() == PeerConnectionStateConnected && dc.ReadyState() == DataChannelStateOpen
			}) && !c.BOffers {
				res.violate("no-connection-on-fault-free-network", fmt.Sprintf("A=%s B=%s dc=%s", a.pc.ConnectionState(), b.pc.ConnectionState(), dc.ReadyState()))
				return
			}
		}
		stop := make(chan struct{})
		var stopOnce sync.Once
		var bg sync.WaitGroup
		if c.Phase == "data" {
			bg.Add(1)
			go func() {
				defer bg.Done()
				vfAs(labA, func() {
					for i := 0; !c.Coop || i < 12; i++ { // (bounded under the cooperative scheduler: a strict-priority strategy must not starve the close calls)
						select {
						case <-stop:
							return
						default:
						}
						_ = dc.Send([]byte("payload"))
						if track != nil {
							_ = track.WriteRTP(&rtpPacketForC21)
						}
						time.Sleep(5 * time.Millisecond)
					}
				})
			}()
		}
		if c.Phase == "data" && c.MsgMs > 0 {
			// B sends too: A's read loop is inside the application's OnMessage handler when the close calls come
			bg.Add(1)
			go func() {
				defer bg.Done()
				vfAs(labB, func() {
					for i := 0; !c.Coop || i < 12; i++ {
						select {
						case <-stop:
							return
						default:
						}
						if d := bdc.Load(); d != nil && d.ReadyState() == DataChannelStateOpen {
							_ = d.SendText("to-a")
						}
						time.Sleep(3 * time.Millisecond)
					}
				})
			}()
		}
		if c.Busy {
			bg.Add(1)
			go func() {
				defer bg.Done()
				vfAs(labA, func() {
					for i := 0; !c.Coop || i < 12; i++ { // (bounded under the cooperative scheduler: a strict-priority strategy must not starve the close calls)
						select {
						case <-stop:
							return
						default:
						}
						switch i % 4 {
						case 0:
							_, _ = a.pc.CreateDataChannel(fmt.Sprintf("x%d", i), nil)
						case 1:
							if o, e := a.pc.CreateOffer(nil); e == nil && a.pc.SignalingState() == SignalingStateStable {
								_ = a.pc.SetLocalDescription(o)
							}
						case 2:
							_, _ = a.pc.AddTransceiverFromKind(RTPCodecTypeAudio)
						case 3:
							_ = a.pc.GetStats()
						}
						time.Sleep(time.Duration(1+i%7) * time.Millisecond)
					}
				})
			}()
		}
		// ---- the closers
		type closeRes struct {
			returned bool
			err      error
			at       time.Duration
			alive    []string
		}
		results := make([]closeRes, len(c.Closers))
		censuses := 0
		tClose := time.Now()
		var sched *simrt.Sched
		if c.Coop {
			// (functions of the close path only: a dependency's goroutine that calls back into webrtc while
			// holding the dependency's own mutex must not be parked)
			sched = simrt.NewSched(c.SchedSeed, c.Strat, "peerconnection.go:close", "peerconnection.go:Close", "peerconnection.go:GracefulClose",
				"peerconnection.go:updateConnectionState", "peerconnection.go:refreshConnectionState", "peerconnection.go:onConnectionStateChange",
				"operations.go", "icetransport.go:stop", "icetransport.go:Stop", "icetransport.go:GracefulStop", "icegatherer.go:close", "icegatherer.go:Close",
				"icegatherer.go:GracefulClose", "dtlstransport.go:Stop", "sctptransport.go:Stop", "rtptransceiver.go:Stop", "harness:")
		}
		spawn := func(name string, f func()) {
			if sched != nil {
				sched.Go(name, func() { simrt.Yield("harness:start:1"); f() })
			} else {
				go f()
			}
		}
		for i, cl := range c.Closers {
			i, cl := i, cl
			spawn(fmt.Sprintf("closer%d", i), func() {
				time.Sleep(time.Duration(cl.DelayMs) * time.Millisecond)
				var e error
				vfAs(labA, func() {
					if cl.Graceful {
						e = a.pc.GracefulClose()
					} else {
						e = a.pc.Close()
					}
				})
				at := time.Since(tClose)
				var alive []string
				if cl.Graceful && sched == nil {
					time.Sleep(time.Nanosecond) // returns at the next quiescent instant
					alive = c21Census(labA)
					mu.Lock()
					censuses++
					mu.Unlock()
				}
				mu.Lock()
				results[i] = closeRes{true, e, at, alive}
				back := 0
				for _, r := range results {
					if r.returned {
						back++
					}
				}
				if back == len(results) {
					stopOnce.Do(func() { close(stop) }) // the background callers end with the last close call
				}
				mu.Unlock()
			})
		}
		allBack := false
		coopNote := ""
		if sched != nil {
			outcome := sched.Run(300000, 2*time.Millisecond, 2000)
			coopNote = fmt.Sprintf("scheduler outcome %s after %d steps; unfinished: %s; lock waits: %s", outcome, len(sched.Trace), strings.Join(sched.Unfinished(), "; "), strings.Join(simrt.BlockedReport(), "; "))
			trace = append(trace, sched.Trace...)
			preempts = sched.Preempts
			vfSettle(0)
			sched.StopIf(outcome == "done")
			allBack = outcome == "done"
		} else {
			allBack = vfWaitFor(180*time.Second, func() bool {
				mu.Lock()
				defer mu.Unlock()
				for _, r := range results {
					if !r.returned {
						return false
					}
				}
				return true
			})
		}
		stopOnce.Do(func() { close(stop) })
		mu.Lock()
		snapshot := append([]closeRes{}, results...)
		mu.Unlock()
		kind := func(g bool) string {
			if g {
				return "GracefulClose"
			}
			return "Close"
		}
		var order []string
		for i, cl := range c.Closers {
			order = append(order, fmt.Sprintf("%s@%dms", kind(cl.Graceful), cl.DelayMs))
			r := snapshot[i]
			logf("closer %d %s at +%dms: returned=%v after %v err=%v", i, kind(cl.Graceful), cl.DelayMs, r.returned, r.at, r.err)
			if !r.returned {
				res.violate("close-call-did-not-return:"+kind(cl.Graceful), fmt.Sprintf("phase %s, calls %v: %s #%d had not returned 180 s (fake) after the calls started; %s goroutines of A: %v", c.Phase, order, kind(cl.Graceful), i, coopNote, c21Census(labA)))
			}
			if r.returned && cl.Graceful && len(r.alive) > 0 {
				res.violate("goroutine-alive-after-gracefulclose-returned", fmt.Sprintf("phase %s handler_ms %d: GracefulClose #%d returned after %v and these goroutines started by the connection were still alive at the next quiescent instant: %v", c.Phase, c.HandlerMs, i, r.at, r.alive))
				res.Log = append(res.Log, r.alive...)
			}
		}
		if !allBack {
			return
		}
		if c.HandlerMs > 0 {
			res.stat("runs_with_slow_handlers", 1)
		}
		res.stat("close_calls", int64(len(c.Closers)))
		res.stat("runs_phase_"+c.Phase, 1)
		if c.Busy {
			res.stat("runs_with_concurrent_api_caller", 1)
		}
		// which kinds of sequences were exercised (by the order in which the calls started)
		idx := make([]int, len(c.Closers))
		for i := range idx {
			idx[i] = i
		}
		sort.SliceStable(idx, func(x, y int) bool { return c.Closers[idx[x]].DelayMs < c.Closers[idx[y]].DelayMs })
		for k := 1; k < len(idx); k++ {
			p, q := c.Closers[idx[k-1]], c.Closers[idx[k]]
			if !p.Graceful && q.Graceful {
				res.stat("sequences_gracefulclose_after_close", 1)
			}
			if p.DelayMs == q.DelayMs {
				res.stat("close_calls_started_at_the_same_instant", 1)
			}
		}
		mu.Lock()
		res.stat("goroutine_censuses_taken", int64(censuses))
		mu.Unlock()
		// ---- the state is final
		final := func(when string) {
			if s := a.pc.SignalingState(); s != SignalingStateClosed {
				res.violate("signaling-state-not-closed-after-close", fmt.Sprintf("%s: SignalingState() = %s", when, s))
			}
			if s := a.pc.ConnectionState(); s != PeerConnectionStateClosed {
				res.violate("connection-state-not-closed-after-close", fmt.Sprintf("%s: ConnectionState() = %s", when, s))
			}
		}
		final("right after the last close call returned")
		bg.Wait()
		calls := []struct {
			name string
			f    func() error
		}{
			{"CreateOffer", func() error { _, e := a.pc.CreateOffer(nil); return e }},
			{"CreateAnswer", func() error { _, e := a.pc.CreateAnswer(nil); return e }},
			{"SetLocalDescription", func() error {
				return a.pc.SetLocalDescription(SessionDescription{Type: SDPTypeOffer, SDP: "v=0\r\n"})
			}},
			{"SetRemoteDescription", func() error {
				return a.pc.SetRemoteDescription(SessionDescription{Type: SDPTypeOffer, SDP: "v=0\r\n"})
			}},
			{"AddTrack", func() error {
				tr, _ := NewTrackLocalStaticRTP(RTPCodecCapability{MimeType: MimeTypeOpus, ClockRate: 48000, Channels: 2}, "late", "late")
				_, e := a.pc.AddTrack(tr)
				return e
			}},
			{"AddTrack(video)", func() error {
				tr, _ := NewTrackLocalStaticRTP(RTPCodecCapability{MimeType: MimeTypeVP8, ClockRate: 90000}, "latev", "late")
				_, e := a.pc.AddTrack(tr)
				return e
			}},
			{"AddTransceiverFromKind", func() error { _, e := a.pc.AddTransceiverFromKind(RTPCodecTypeVideo); return e }},
			{"AddTransceiverFromTrack", func() error {
				tr, _ := NewTrackLocalStaticRTP(RTPCodecCapability{MimeType: MimeTypeOpus, ClockRate: 48000, Channels: 2}, "late2", "late2")
				_, e := a.pc.AddTransceiverFromTrack(tr)
				return e
			}},
			{"CreateDataChannel", func() error { _, e := a.pc.CreateDataChannel("late", nil); return e }},
			{"SetConfiguration", func() error { return a.pc.SetConfiguration(Configuration{}) }},
		}
		if sender != nil {
			calls = append(calls, struct {
				name string
				f    func() error
			}{"RemoveTrack", func() error { return a.pc.RemoveTrack(sender) }})
		}
		for _, cl := range calls {
			var e error
			vfAs(labA, func() { e = cl.f() })
			var ise *rtcerr.InvalidStateError
			if !errors.As(e, &ise) {
				res.violate("call-after-close-not-invalidstate:"+cl.name, fmt.Sprintf("%s on the closed connection returned %v", cl.name, e))
			}
		}
		vfSettle(5 * time.Second)
		final("5 s (fake) later, after every mutating call was tried")
		mu.Lock()
		seq := append([]PeerConnectionState{}, connSeq...)
		mu.Unlock()
		logf("connection states reported to the handler: %v", seq)
		for i, s := range seq {
			if s == PeerConnectionStateClosed && i != len(seq)-1 {
				res.violate("handler-reported-state-after-closed:"+seq[i+1].String(), fmt.Sprintf("OnConnectionStateChange sequence %v", seq))
				break
			}
		}
	})
	mu.Lock()
	res.Log = append([]string{fmt.Sprintf("phase=%s bOffers=%v handlerMs=%d media=%v busy=%v", c.Phase, c.BOffers, c.HandlerMs, c.WithMedia, c.Busy)}, append(lines, res.Log...)...)
	mu.Unlock()
	if c.Coop {
		res.Steps = len(trace)
		res.stat("preemptions", int64(preempts))
		sig := append([]string{}, res.Log...)
		for _, st := range trace {
			sig = append(sig, fmt.Sprintf("%d@%s", st.Task, st.Site))
		}
		res.Sig = vfSig(sig)
		if (res.Verdict == "ok" || res.Verdict == "violation") && preempts > 0 {
			res.Nontrivial = res.Sig
		}
		vfKeepSchedule(res, &c.Strat, trace, &c)
		return
	}
	res.Sig = vfSig(res.Log)
	if res.Verdict == "ok" || res.Verdict == "violation" {
		res.Nontrivial = res.Sig
	}
}

func init() {
	vfRegister(&vfProp{
		ID: "C21D", Level: "exploration", ReplayClass: "decision-exact",
		Gen: c21GenCoop, Run: c21Run,
		Rule: "as C21, but the 2-4 close calls (and whatever else runs) are interleaved by the seeded cooperative scheduler at every lock/atomic site of the close path (PeerConnection.close/Close/GracefulClose and the connection-state update, operations.go, the Stop/close functions of the ICE transport and gatherer, DTLS, SCTP and transceivers); no goroutine census; non-trivial = at least one preemption, distinct = hash of (history, schedule)",
		Real: []string{"both PeerConnections with real ICE, DTLS, SCTP, SRTP, operations queue", "vnet"},
		Stub: []string{"network: vnet + seeded per-datagram fate", "signaling: in-process"},
	})
	vfRegister(&vfProp{
		ID: "C21", Level: "exploration", ReplayClass: "decision-exact",
		Gen: c21Gen, Run: c21Run,
		Rule:   "case = a real PeerConnection pair on the simulated network brought to one of 5 points of its life (nothing negotiated / offer applied and gathering / ICE+DTLS in progress / connected / data and media flowing), then 1-4 goroutines call Close or GracefulClose on one peer at fake-time offsets 0-1500 ms, optionally while another goroutine keeps calling CreateDataChannel/CreateOffer+SetLocalDescription/AddTransceiverFromKind/GetStats and while the peer's event handlers take 0-700 ms of fake time; afterwards every mutating call is tried; non-trivial = all setup steps succeeded, distinct = hash of the recorded history",
		Real:   []string{"both PeerConnections with real ICE, DTLS, SCTP, SRTP, operations queue", "vnet"},
		Shrink: []string{"closers"},
		Stub:   []string{"network: vnet + seeded per-datagram fate", "signaling: in-process", "goroutine attribution: pprof labels + runtime goroutine profile"},
	})
}
