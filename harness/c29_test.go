//go:build !js

package webrtc

// C29 — static RTP tracks fan out to each binding and leave the caller's packet intact.
// Engine A: the real TrackLocalStaticRTP under the cooperative scheduler. 1-3 tasks run
// bind/unbind/write histories; binding writers are recorders that yield to the scheduler inside
// WriteRTP (so another task can be scheduled in the middle of a fan-out) and may fail.
// Oracle: per-delivery rewrite rule, caller packet deep-equal at the end of the history, nothing
// delivered after Unbind returned, at most one delivery per binding per write, and the history
// of (op, recipients) is linearizable against a set-of-bindings model (porcupine).

import (
	"encoding/json"
	"errors"
	"fmt"
	"reflect"
	"sort"
	"strings"
	"sync"
	"testing"
	"time"

	"github.com/anishathalye/porcupine"
	"github.com/pion/rtp"
	"verifsim/simrt"
)

type c29Pkt struct {
	Seq      uint16   `json:"seq"`
	TS       uint32   `json:"ts"`
	Marker   bool     `json:"marker,omitempty"`
	CSRC     []uint32 `json:"csrc,omitempty"`
	ExtIDs   []uint8  `json:"ext_ids,omitempty"` // one-byte extension ids
	ExtLen   int      `json:"ext_len,omitempty"`
	Pad      uint8    `json:"pad,omitempty"`
	OldPad   bool     `json:"old_pad,omitempty"` // padding given through the deprecated Packet.PaddingSize field only
	PayLen   int      `json:"pay_len"`
	Raw      bool     `json:"raw,omitempty"` // use Write([]byte) instead of WriteRTP
	SSRC     uint32   `json:"ssrc"`
	PT       uint8    `json:"pt"`
	DataSeed uint64   `json:"data_seed"`
}

type c29Op struct {
	Kind string  `json:"kind"` // bind | unbind | write
	B    int     `json:"b,omitempty"`
	Pkt  *c29Pkt `json:"pkt,omitempty"`
}

type c29Binding struct {
	SSRC     uint32 `json:"ssrc"`
	PT       uint8  `json:"pt"`
	FailEach int    `json:"fail_each,omitempty"` // writer returns an error on every n-th call (0 = never)
}

type c29Case struct {
	Bindings  []c29Binding   `json:"bindings"`
	Tasks     [][]c29Op      `json:"tasks"`
	SchedSeed uint64         `json:"sched_seed"`
	Strat     simrt.Strategy `json:"strat"`
}

func c29GenPkt(r *vfRand) *c29Pkt {
	p := &c29Pkt{Seq: uint16(r.Intn(65536)), TS: uint32(r.U64()), Marker: r.Bool(0.3), PayLen: r.Range(0, 60),
		Raw: r.Bool(0.35), SSRC: uint32(r.U64()), PT: uint8(r.Intn(128)), DataSeed: r.U64()}
	if r.Bool(0.5) {
		n := r.Range(1, 4)
		if r.Bool(0.1) {
			n = 15
		}
		for i := 0; i < n; i++ {
			p.CSRC = append(p.CSRC, uint32(r.U64()))
		}
	}
	if r.Bool(0.5) {
		n := r.Range(1, 3)
		for _, id := range r.perm(14)[:n] {
			p.ExtIDs = append(p.ExtIDs, uint8(id+1))
		}
		p.ExtLen = r.Range(1, 8)
	}
	if r.Bool(0.25) && p.PayLen > 0 {
		p.Pad = uint8(r.Range(1, 20))
		p.OldPad = r.Bool(0.3)
	}
	return p
}

func c29Gen(seed uint64, idx, total int, tier string) any {
	r := vfNewRand(seed, "c29")
	c := &c29Case{SchedSeed: r.U64(), Strat: vfGenStrategy(r)}
	nt := r.Range(1, 3)
	nb := 2 * nt
	for i := 0; i < nb; i++ {
		b := c29Binding{SSRC: uint32(1000 + i*17 + r.Intn(10)), PT: uint8(96 + i)}
		if r.Bool(0.2) {
			b.FailEach = r.Range(1, 3)
		}
		c.Bindings = append(c.Bindings, b)
	}
	budget := 22
	for t := 0; t < nt; t++ {
		var ops []c29Op
		bound := map[int]bool{}
		n := r.Range(3, 9)
		for i := 0; i < n && budget > 0; i++ {
			budget--
			own := []int{2 * t, 2*t + 1}
			switch x := r.Intn(10); {
			case x < 3:
				b := vfPick(r, own)
				if bound[b] {
					ops = append(ops, c29Op{Kind: "unbind", B: b})
					bound[b] = false
				} else {
					ops = append(ops, c29Op{Kind: "bind", B: b})
					bound[b] = true
				}
			case x < 4:
				b := vfPick(r, own)
				if bound[b] {
					ops = append(ops, c29Op{Kind: "unbind", B: b})
					bound[b] = false
				} else {
					ops = append(ops, c29Op{Kind: "unbind", B: b}) // unbind of something not bound: must fail, change nothing
				}
			default:
				ops = append(ops, c29Op{Kind: "write", Pkt: c29GenPkt(r)})
			}
		}
		c.Tasks = append(c.Tasks, ops)
	}
	return c
}

func c29Build(p *c29Pkt) *rtp.Packet {
	r := vfNewRand(p.DataSeed, "pkt")
	pk := &rtp.Packet{}
	pk.Version = 2
	pk.SequenceNumber = p.Seq
	pk.Timestamp = p.TS
	pk.Marker = p.Marker
	pk.SSRC = p.SSRC
	pk.PayloadType = p.PT & 0x7f
	pk.CSRC = append([]uint32{}, p.CSRC...)
	if len(p.ExtIDs) > 0 {
		for _, id := range p.ExtIDs {
			l := p.ExtLen
			if l < 1 {
				l = 1
			}
			if l > 16 {
				l = 16
			}
			_ = pk.Header.SetExtension(id, r.Bytes(l))
		}
	}
	pk.Payload = r.Bytes(p.PayLen)
	if p.Pad > 0 && p.PayLen > 0 {
		pk.Header.Padding = true
		if p.OldPad {
			pk.PaddingSize = p.Pad //nolint:staticcheck // the deprecated field is still honoured by WriteRTP
		} else {
			pk.Header.PaddingSize = p.Pad
		}
	}
	return pk
}

type c29Delivery struct {
	seq     int
	binding int
	writeID int
	header  rtp.Header
	payload []byte
}

type c29Writer struct {
	h     *c29Harness
	b     int
	calls int
}

type c29Harness struct {
	mu         sync.Mutex
	seq        int
	deliveries []c29Delivery
	curWrite   map[int64]int // not used: write id travels in the payload/seq lookup
	c          *c29Case
	lines      []string
}

func (h *c29Harness) tick() int {
	h.mu.Lock()
	defer h.mu.Unlock()
	h.seq++
	return h.seq
}

var errC29Writer = errors.New("simulated writer failure")

func (w *c29Writer) WriteRTP(header *rtp.Header, payload []byte) (int, error) {
	simrt.Yield("harness:writer:1") // the fan-out can be preempted inside a binding's write
	hc := header.Clone()
	d := c29Delivery{seq: w.h.tick(), binding: w.b, header: hc, payload: append([]byte{}, payload...)}
	w.h.mu.Lock()
	w.h.deliveries = append(w.h.deliveries, d)
	w.calls++
	n := w.calls
	w.h.mu.Unlock()
	simrt.Yield("harness:writer:2")
	if fe := w.h.c.Bindings[w.b].FailEach; fe > 0 && n%fe == 0 {
		return 0, errC29Writer
	}
	return len(payload), nil
}

func (w *c29Writer) Write(b []byte) (int, error) { return len(b), nil }

type c29HistOp struct {
	task, idx  int
	kind       string
	b          int
	call, ret  int
	ok         bool
	recipients []int // write: bindings that got the packet (in delivery order)
	orig       *rtp.Packet
	sent       *rtp.Packet // the caller's packet object (WriteRTP) — compared with orig at the end
	rawSent    []byte
	rawOrig    []byte
}

type c29In struct {
	kind string
	b    int
}
type c29Out struct {
	ok   bool
	mask uint32
}

func c29Run(t *testing.T, cj []byte, res *vfResult) {
	var c c29Case
	if err := json.Unmarshal(cj, &c); err != nil {
		res.Verdict, res.Detail = "error", err.Error()
		return
	}
	if len(c.Bindings) == 0 || len(c.Bindings) > 16 {
		res.Verdict, res.Detail = "error", "bad binding count"
		return
	}
	h := &c29Harness{c: &c}
	var hist []*c29HistOp
	var trace []simrt.Step
	outcome := ""
	var unfinished []string
	preempts := 0
	codec := RTPCodecCapability{MimeType: MimeTypeVP8, ClockRate: 90000}
	vfBubble(t, func(t *testing.T) {
		track, err := NewTrackLocalStaticRTP(codec, "trk", "strm")
		if err != nil {
			res.Verdict, res.Detail = "error", err.Error()
			return
		}
		ctxs := make([]*baseTrackLocalContext, len(c.Bindings))
		for i, b := range c.Bindings {
			ctxs[i] = &baseTrackLocalContext{
				id:          fmt.Sprintf("ctx-%d", i),
				params:      RTPParameters{Codecs: []RTPCodecParameters{{RTPCodecCapability: codec, PayloadType: PayloadType(b.PT)}}},
				ssrc:        SSRC(b.SSRC),
				writeStream: &c29Writer{h: h, b: i},
			}
		}
		s := simrt.NewSched(c.SchedSeed, c.Strat, "track_local_static.go", "harness:")
		var hmu sync.Mutex
		for ti, ops := range c.Tasks {
			ti, ops := ti, ops
			s.Go(fmt.Sprintf("t%d", ti), func() {
				for oi, op := range ops {
					if op.B < 0 || op.B >= len(ctxs) {
						continue
					}
					ho := &c29HistOp{task: ti, idx: oi, kind: op.Kind, b: op.B}
					hmu.Lock()
					hist = append(hist, ho)
					hmu.Unlock()
					switch op.Kind {
					case "bind":
						ho.call = h.tick()
						_, err := track.Bind(ctxs[op.B])
						ho.ret = h.tick()
						ho.ok = err == nil
					case "unbind":
						ho.call = h.tick()
						err := track.Unbind(ctxs[op.B])
						ho.ret = h.tick()
						ho.ok = err == nil
					case "write":
						if op.Pkt == nil {
							continue
						}
						pk := c29Build(op.Pkt)
						ho.orig = pk.Clone()
						ho.call = h.tick()
						var err error
						if op.Pkt.Raw {
							raw, merr := pk.Marshal()
							if merr != nil {
								ho.kind = "skip"
								continue
							}
							ho.rawSent = raw
							ho.rawOrig = append([]byte{}, raw...)
							// what the track will see is the parsed form of raw
							parsed := &rtp.Packet{}
							if perr := parsed.Unmarshal(append([]byte{}, raw...)); perr == nil {
								ho.orig = parsed
							}
							_, err = track.Write(raw)
						} else {
							ho.sent = pk
							err = track.WriteRTP(pk)
						}
						ho.ret = h.tick()
						ho.ok = err == nil
					}
				}
			})
		}
		outcome = s.Run(20000, time.Millisecond, 3)
		unfinished = s.Unfinished()
		trace = append(trace, s.Trace...)
		preempts = s.Preempts
		s.StopIf(outcome == "done")
	})
	res.Steps = len(trace)
	res.stat("preemptions", int64(preempts))
	if outcome != "done" {
		res.violate("track-call-did-not-return", fmt.Sprintf("outcome %s: %s", outcome, strings.Join(unfinished, "; ")))
		vfKeepSchedule(res, &c.Strat, trace, &c)
		return
	}
	// attribute deliveries to writes by time window and content
	sort.Slice(hist, func(i, j int) bool { return hist[i].call < hist[j].call })
	var lines []string
	for _, d := range h.deliveries {
		var owner *c29HistOp
		for _, ho := range hist {
			if ho.kind != "write" || ho.orig == nil || d.seq < ho.call || d.seq > ho.ret {
				continue
			}
			if ho.orig.SequenceNumber == d.header.SequenceNumber && ho.orig.Timestamp == d.header.Timestamp {
				owner = ho
				break
			}
		}
		if owner == nil {
			res.violate("delivery-outside-any-write-call", fmt.Sprintf("binding %d received seq=%d ts=%d at event %d, no write with that packet was in progress", d.binding, d.header.SequenceNumber, d.header.Timestamp, d.seq))
			continue
		}
		for _, rb := range owner.recipients {
			if rb == d.binding {
				res.violate("packet-delivered-twice-to-one-binding", fmt.Sprintf("write of seq=%d reached binding %d more than once", owner.orig.SequenceNumber, d.binding))
			}
		}
		owner.recipients = append(owner.recipients, d.binding)
		// rewrite rule
		want := owner.orig.Header.Clone()
		if want.PaddingSize == 0 && owner.orig.PaddingSize > 0 { //nolint:staticcheck
			want.PaddingSize = owner.orig.PaddingSize // what goes on the wire carries the padding either way
		}
		want.SSRC = c.Bindings[d.binding].SSRC
		want.PayloadType = c.Bindings[d.binding].PT
		got := d.header
		if !c29HeaderEq(&want, &got) {
			res.violate("delivered-header-differs", fmt.Sprintf("binding %d (ssrc %d pt %d) got header %+v, want %+v", d.binding, want.SSRC, want.PayloadType, got, want))
		}
		if !reflect.DeepEqual(append([]byte{}, owner.orig.Payload...), d.payload) && !(len(owner.orig.Payload) == 0 && len(d.payload) == 0) {
			res.violate("delivered-payload-differs", fmt.Sprintf("binding %d got %d payload bytes, %d written (seq %d)", d.binding, len(d.payload), len(owner.orig.Payload), owner.orig.SequenceNumber))
		}
	}
	// nothing after Unbind returned (until the next Bind of that context is invoked)
	for _, ho := range hist {
		if ho.kind != "unbind" || !ho.ok {
			continue
		}
		nextBind := 1 << 30
		for _, o2 := range hist {
			if o2.kind == "bind" && o2.b == ho.b && o2.call > ho.ret && o2.call < nextBind {
				nextBind = o2.call
			}
		}
		for _, d := range h.deliveries {
			if d.binding == ho.b && d.seq > ho.ret && d.seq < nextBind {
				res.violate("delivery-after-unbind-returned", fmt.Sprintf("binding %d received a packet at event %d, Unbind had returned at event %d", ho.b, d.seq, ho.ret))
			}
		}
	}
	// caller's packets untouched at the end of the whole history
	for _, ho := range hist {
		if ho.kind != "write" {
			continue
		}
		if ho.sent != nil && !c29PacketEq(ho.sent, ho.orig) {
			res.violate("callers-packet-modified", fmt.Sprintf("packet passed to WriteRTP (seq %d) is now %+v / %d payload bytes, was %+v / %d", ho.orig.SequenceNumber, ho.sent.Header, len(ho.sent.Payload), ho.orig.Header, len(ho.orig.Payload)))
		}
		if ho.rawSent != nil && !reflect.DeepEqual(ho.rawSent, ho.rawOrig) {
			res.violate("callers-buffer-modified", fmt.Sprintf("buffer passed to Write (seq %d) was modified", ho.orig.SequenceNumber))
		}
	}
	// linearizability against the set-of-bindings model
	var ops []porcupine.Operation
	for _, ho := range hist {
		if ho.kind == "skip" || ho.ret == 0 {
			continue
		}
		var mask uint32
		for _, b := range ho.recipients {
			mask |= 1 << uint(b)
		}
		ops = append(ops, porcupine.Operation{ClientId: ho.task, Input: c29In{ho.kind, ho.b}, Call: int64(ho.call), Output: c29Out{ho.ok, mask}, Return: int64(ho.ret)})
		lines = append(lines, fmt.Sprintf("[%d,%d] t%d %s b=%d ok=%v recipients=%v", ho.call, ho.ret, ho.task, ho.kind, ho.b, ho.ok, ho.recipients))
	}
	model := porcupine.Model{
		Init: func() interface{} { return uint32(0) },
		Step: func(state, input, output interface{}) (bool, interface{}) {
			st := state.(uint32)
			in := input.(c29In)
			out := output.(c29Out)
			switch in.kind {
			case "bind":
				return out.ok, st | 1<<uint(in.b)
			case "unbind":
				if st&(1<<uint(in.b)) != 0 {
					return out.ok, st &^ (1 << uint(in.b))
				}
				return !out.ok, st
			default:
				return out.mask == st, st
			}
		},
		Equal: func(a, b interface{}) bool { return a.(uint32) == b.(uint32) },
	}
	if len(ops) <= 26 {
		switch porcupine.CheckOperationsTimeout(model, ops, 20*time.Second) {
		case porcupine.Illegal:
			res.violate("history-not-linearizable-against-binding-set-model", "no sequential order of the bind/unbind/write calls explains the observed recipients:\n"+strings.Join(lines, "\n"))
		case porcupine.Unknown:
			res.stat("linearizability_inconclusive", 1)
		default:
			res.stat("linearizability_checked", 1)
		}
	}
	for _, st := range trace {
		lines = append(lines, fmt.Sprintf("%d@%s", st.Task, st.Site))
	}
	res.Log = lines
	res.Sig = vfSig(lines)
	nw := 0
	for _, ho := range hist {
		if ho.kind == "write" && len(ho.recipients) > 0 {
			nw++
		}
	}
	res.stat("writes_with_recipients", int64(nw))
	if nw > 0 && (preempts > 0 || len(c.Tasks) == 1) {
		res.Nontrivial = res.Sig
	}
	vfKeepSchedule(res, &c.Strat, trace, &c)
}

func c29HeaderEq(a, b *rtp.Header) bool {
	if a.Version != b.Version || a.Padding != b.Padding || a.Marker != b.Marker || a.PayloadType != b.PayloadType ||
		a.SequenceNumber != b.SequenceNumber || a.Timestamp != b.Timestamp || a.SSRC != b.SSRC || a.PaddingSize != b.PaddingSize ||
		a.Extension != b.Extension || a.ExtensionProfile != b.ExtensionProfile || len(a.CSRC) != len(b.CSRC) || len(a.Extensions) != len(b.Extensions) {
		return false
	}
	for i := range a.CSRC {
		if a.CSRC[i] != b.CSRC[i] {
			return false
		}
	}
	for _, id := range a.GetExtensionIDs() {
		if !reflect.DeepEqual(a.GetExtension(id), b.GetExtension(id)) {
			return false
		}
	}
	return true
}

func c29PacketEq(a, b *rtp.Packet) bool {
	if !c29HeaderEq(&a.Header, &b.Header) || a.PaddingSize != b.PaddingSize { //nolint:staticcheck
		return false
	}
	if len(a.Payload) != len(b.Payload) {
		return false
	}
	for i := range a.Payload {
		if a.Payload[i] != b.Payload[i] {
			return false
		}
	}
	return true
}

func init() {
	vfRegister(&vfProp{
		ID: "C29", Level: "exploration", ReplayClass: "exact",
		Rule: "case = 1-3 tasks, each owning two bindings (distinct SSRC/payload type, some with a failing writer), running 3-9 operations from {Bind, Unbind (also of unbound contexts), WriteRTP, Write(raw)} with random packets (0-15 CSRCs, one-byte extensions, padding, payload 0-60) on one real TrackLocalStaticRTP; the cooperative scheduler picks the next task at every lock site of track_local_static.go and inside every binding writer; non-trivial = >=1 write reached >=1 binding and (>=1 preemption or a single-task sequential history), distinct = hash of (history, schedule)",
		Real: []string{"TrackLocalStaticRTP, baseTrackLocalContext, codec fuzzy search (instrumented)", "pion/rtp marshal/unmarshal"},
		Stub: []string{"binding writers are recorders (optionally failing) instead of SRTP write streams"},
		Assumptions: []string{"each binding context is bound/unbound by one task only (a context bound twice is outside the property)", "histories <= 26 operations are fed to porcupine with a 20 s cap; Unknown is counted, never reported",
			"30% of padded packets give the padding through the deprecated packet-level PaddingSize field only"},
		Shrink: []string{"tasks.0", "tasks.1", "tasks.2", "strat.script"},
		Gen:    c29Gen, Run: c29Run,
	})
}
