//go:build !js

package webrtc

// C26S: the simulcast part of C26 (run as a second batch of ./check C26).
//
// The sender offers one video section with three rids and no a=ssrc lines (what browsers do), so
// the receiving PeerConnection learns every SSRC from the packets themselves: the first packets
// of a stream carry the mid and rid (or repaired-rid) header extensions. The simulated sender
// puts hand-built RTP on the wire (own SRTP context, bytes as built) for one rid: optionally an
// RTX padding probe *before* the first original (the repair stream is then bound before the
// primary one), originals, retransmissions of originals that are never sent as such, and
// trailing originals. Oracle as in C26: what TrackRemote.Read delivers for a retransmission is
// the original packet — original sequence number, the primary stream's SSRC and payload type,
// payload without the OSN — each packet once, nothing lost on the fault-free network.

import (
	"bytes"
	"encoding/binary"
	"encoding/json"
	"fmt"
	"strings"
	"sync"
	"testing"
	"time"

	"github.com/pion/rtp"
	"github.com/pion/srtp/v3"
)

type c26sCase struct {
	Rid      string `json:"rid"`
	RtxFirst bool   `json:"rtx_first,omitempty"` // an RTX padding probe is the first packet of this rid on the wire
	N        int    `json:"n"`
	RtxIdx   []int  `json:"rtx_idx,omitempty"` // originals that only travel as retransmissions
	ExtOnAll bool   `json:"ext_on_all,omitempty"`
	Seq0     uint16 `json:"seq0"`
	DelayUs  int    `json:"delay_us"`
	NetSeed  uint64 `json:"net_seed"`
	Data     uint64 `json:"data_seed"`
}

func c26sGen(seed uint64, idx, total int, tier string) any {
	r := vfNewRand(seed, "c26s")
	c := &c26sCase{Rid: vfPick(r, []string{"h", "m", "l"}), RtxFirst: r.Bool(0.5), N: r.Range(4, 12), ExtOnAll: r.Bool(0.5),
		Seq0: uint16(vfPick(r, []int{0, 1, 65530, r.Intn(65536)})), DelayUs: vfPick(r, []int{0, 1000, 10000}), NetSeed: r.U64(), Data: r.U64()}
	for i := 2; i < c.N; i++ {
		if r.Bool(0.4) {
			c.RtxIdx = append(c.RtxIdx, i)
		}
	}
	return c
}

func c26sPacket(ssrc uint32, pt byte, seq uint16, ts uint32, marker bool, exts [][2]any, payload []byte, pad int) []byte {
	b0 := byte(0x80)
	var ext []byte
	for _, e := range exts {
		id, val := e[0].(int), e[1].(string)
		if id <= 0 || id > 14 || len(val) == 0 || len(val) > 16 {
			continue
		}
		ext = append(ext, byte(id)<<4|byte(len(val)-1))
		ext = append(ext, val...)
	}
	for len(ext)%4 != 0 {
		ext = append(ext, 0)
	}
	if len(ext) > 0 {
		b0 |= 0x10
	}
	if pad > 0 {
		b0 |= 0x20
	}
	b1 := pt
	if marker {
		b1 |= 0x80
	}
	out := []byte{b0, b1}
	out = binary.BigEndian.AppendUint16(out, seq)
	out = binary.BigEndian.AppendUint32(out, ts)
	out = binary.BigEndian.AppendUint32(out, ssrc)
	if len(ext) > 0 {
		out = binary.BigEndian.AppendUint16(out, 0xBEDE)
		out = binary.BigEndian.AppendUint16(out, uint16(len(ext)/4))
		out = append(out, ext...)
	}
	out = append(out, payload...)
	if pad > 0 {
		out = append(out, make([]byte, pad-1)...)
		out = append(out, byte(pad))
	}
	return out
}

func c26sRun(t *testing.T, cj []byte, res *vfResult) {
	var c c26sCase
	if err := json.Unmarshal(cj, &c); err != nil {
		res.Verdict, res.Detail = "error", err.Error()
		return
	}
	if c.N < 2 || c.N > 64 {
		res.Verdict, res.Detail = "error", "n out of range"
		return
	}
	var lines []string
	vfBubble(t, func(t *testing.T) {
		t0 := time.Now()
		nw, err := vfNewNetSim(c.NetSeed, vfNetCfg{BaseDelayUs: c.DelayUs})
		if err != nil {
			res.Verdict, res.Detail = "error", err.Error()
			return
		}
		ha, _ := nw.addHost("10.0.1.2")
		hb, _ := nw.addHost("10.0.2.2")
		_ = nw.Start()
		a, err := vfNewPeer("A", ha)
		if err != nil {
			res.Verdict, res.Detail = "error", err.Error()
			return
		}
		b, err := vfNewPeer("B", hb)
		if err != nil {
			res.Verdict, res.Detail = "error", err.Error()
			return
		}
		defer func() {
			_ = a.pc.Close()
			_ = b.pc.Close()
			nw.Stop()
			res.SimNs = int64(time.Since(t0))
		}()
		var mu sync.Mutex
		recv := map[string][]mdRecv{}
		tracks := map[string]*TrackRemote{}
		b.pc.OnTrack(func(tr *TrackRemote, _ *RTPReceiver) {
			mu.Lock()
			tracks[tr.RID()] = tr
			mu.Unlock()
			go func() {
				for {
					p, _, err := tr.ReadRTP()
					if err != nil {
						return
					}
					mu.Lock()
					recv[tr.RID()] = append(recv[tr.RID()], mdRecv{p.Header.Clone(), append([]byte{}, p.Payload...)})
					mu.Unlock()
				}
			}()
		})
		vp8 := RTPCodecCapability{MimeType: MimeTypeVP8, ClockRate: 90000}
		var sender *RTPSender
		for i, rid := range []string{"h", "m", "l"} {
			tr, e := NewTrackLocalStaticRTP(vp8, "sim-trk", "sim-strm", WithRTPStreamID(rid))
			if e != nil {
				res.Verdict, res.Detail = "error", e.Error()
				return
			}
			if i == 0 {
				sender, e = a.pc.AddTrack(tr)
			} else {
				e = sender.AddEncoding(tr)
			}
			if e != nil {
				res.Verdict, res.Detail = "error", "simulcast sender: "+e.Error()
				return
			}
		}
		offer, err := a.pc.CreateOffer(nil)
		if err == nil {
			err = a.pc.SetLocalDescription(offer)
		}
		if err != nil {
			res.Verdict, res.Detail = "error", "offer: "+err.Error()
			return
		}
		full := vfGatherDone(a)
		sent := *full
		// browsers announce simulcast layers by rid only
		sent.SDP = vfRewriteLines(full.SDP, func(l string) (string, bool) {
			return l, !strings.HasPrefix(l, "a=ssrc:") && !strings.HasPrefix(l, "a=ssrc-group:")
		})
		if err = b.pc.SetRemoteDescription(sent); err != nil {
			res.Verdict, res.Detail = "error", "B.SetRemoteDescription: "+err.Error()
			return
		}
		answer, err := b.pc.CreateAnswer(nil)
		if err == nil {
			err = b.pc.SetLocalDescription(answer)
		}
		if err == nil {
			err = a.pc.SetRemoteDescription(*vfGatherDone(b))
		}
		if err != nil {
			res.Verdict, res.Detail = "error", "answer: "+err.Error()
			return
		}
		if !vfWaitFor(60*time.Second, func() bool {
			return a.pc.ConnectionState() == PeerConnectionStateConnected && b.pc.ConnectionState() == PeerConnectionStateConnected
		}) {
			res.violate("no-connection-on-fault-free-network", fmt.Sprintf("A=%s B=%s", a.pc.ConnectionState(), b.pc.ConnectionState()))
			return
		}
		vfDrain(30*time.Second, a, b)
		// extension ids, mid and payload types as negotiated
		midID, ridID, rridID, mid := 0, 0, 0, ""
		pt, rtxPT := -1, -1
		for _, s := range vfParseSDP(b.pc.LocalDescription().SDP).Sections {
			if s.Kind != "video" {
				continue
			}
			mid, _ = s.Mid()
			for _, v := range vfAttrVals(s.Attrs, "extmap") {
				f := strings.Fields(v)
				if len(f) < 2 {
					continue
				}
				id := 0
				fmt.Sscanf(strings.SplitN(f[0], "/", 2)[0], "%d", &id)
				switch f[1] {
				case "urn:ietf:params:rtp-hdrext:sdes:mid":
					midID = id
				case "urn:ietf:params:rtp-hdrext:sdes:rtp-stream-id":
					ridID = id
				case "urn:ietf:params:rtp-hdrext:sdes:repaired-rtp-stream-id":
					rridID = id
				}
			}
			for _, v := range vfAttrVals(s.Attrs, "rtpmap") {
				f := strings.Fields(v)
				if len(f) == 2 && strings.HasPrefix(strings.ToUpper(f[1]), "VP8/") && pt < 0 {
					fmt.Sscanf(f[0], "%d", &pt)
				}
			}
			for _, v := range vfAttrVals(s.Attrs, "fmtp") {
				f := strings.Fields(v)
				if len(f) == 2 && f[1] == fmt.Sprintf("apt=%d", pt) {
					fmt.Sscanf(f[0], "%d", &rtxPT)
				}
			}
		}
		lines = append(lines, fmt.Sprintf("rid=%s rtxFirst=%v mid=%q extension ids mid=%d rid=%d rrid=%d pt=%d rtxPT=%d", c.Rid, c.RtxFirst, mid, midID, ridID, rridID, pt, rtxPT))
		if midID == 0 || ridID == 0 || rridID == 0 || pt < 0 || rtxPT < 0 {
			res.stat("inconclusive_simulcast_extensions_or_rtx_not_negotiated", 1)
			return
		}
		ctx, err := mdRawSRTPContext(a.pc.dtlsTransport)
		if err != nil {
			res.Verdict, res.Detail = "error", err.Error()
			return
		}
		put := func(raw []byte) {
			if enc, e := ctx.EncryptRTP(nil, raw, nil); e == nil {
				_, _ = a.pc.dtlsTransport.srtpEndpoint.Write(enc)
			} else {
				lines = append(lines, "encrypt: "+e.Error())
			}
		}
		rr := vfNewRand(c.Data, "c26s-pay")
		primary, repair := uint32(0x11110000|rr.Intn(0xFFFF)), uint32(0x22220000|rr.Intn(0xFFFF))
		rtxSeq := uint16(rr.Intn(65536))
		asRtx := map[int]bool{}
		for _, i := range c.RtxIdx {
			if i >= 2 && i < c.N {
				asRtx[i] = true
			}
		}
		type sentPkt struct {
			seq uint16
			ts  uint32
			pay []byte
			rtx bool
		}
		var sentPkts []sentPkt
		if c.RtxFirst {
			// BWE-style probe on the repair stream: no room for an OSN, nothing to deliver
			put(c26sPacket(repair, byte(rtxPT), rtxSeq, 1000, false, [][2]any{{midID, mid}, {rridID, c.Rid}}, nil, 0))
			rtxSeq++
			put(c26sPacket(repair, byte(rtxPT), rtxSeq, 1000, false, [][2]any{{midID, mid}, {rridID, c.Rid}}, []byte{0}, 0))
			rtxSeq++
			vfSettle(50 * time.Millisecond)
			res.stat("runs_repair_stream_seen_first", 1)
		}
		total := c.N + 2
		for i := 0; i < total; i++ {
			sp := sentPkt{seq: c.Seq0 + uint16(i), ts: 5000 + uint32(i)*3000, pay: rr.Bytes(rr.Range(4, 300)), rtx: asRtx[i]}
			binary.BigEndian.PutUint32(sp.pay, 0xC0DE0000|uint32(i))
			var exts [][2]any
			if c.ExtOnAll || i < 3 || sp.rtx {
				exts = [][2]any{{midID, mid}, {ridID, c.Rid}}
				if sp.rtx {
					exts = [][2]any{{midID, mid}, {rridID, c.Rid}}
				}
			}
			if sp.rtx {
				body := binary.BigEndian.AppendUint16(nil, sp.seq)
				body = append(body, sp.pay...)
				put(c26sPacket(repair, byte(rtxPT), rtxSeq, sp.ts, false, exts, body, 0))
				rtxSeq++
				res.stat("rtx_packets_sent", 1)
			} else {
				put(c26sPacket(primary, byte(pt), sp.seq, sp.ts, false, exts, sp.pay, 0))
			}
			sentPkts = append(sentPkts, sp)
			if i == 0 || i == 1 {
				// the stream is bound on its first packets
				vfWaitFor(10*time.Second, func() bool { mu.Lock(); defer mu.Unlock(); return len(recv[c.Rid]) > i })
			}
			if i%3 == 2 || i >= c.N-1 {
				vfSettle(time.Duration(2+i) * time.Millisecond)
			}
		}
		vfWaitFor(20*time.Second, func() bool { mu.Lock(); defer mu.Unlock(); return len(recv[c.Rid]) >= total })
		vfSettle(time.Second)
		mu.Lock()
		got := append([]mdRecv{}, recv[c.Rid]...)
		tr := tracks[c.Rid]
		var others []string
		for k, v := range recv {
			if k != c.Rid && len(v) > 0 {
				others = append(others, fmt.Sprintf("%q:%d", k, len(v)))
			}
		}
		mu.Unlock()
		lines = append(lines, fmt.Sprintf("sent %d (of them %d as RTX only), received %d on rid %s, elsewhere %v", total, len(asRtx), len(got), c.Rid, others))
		if tr == nil {
			res.violate("remote-track-never-appeared:simulcast", fmt.Sprintf("no OnTrack for rid %q after %d packets on a fault-free network", c.Rid, total))
			return
		}
		if len(others) > 0 {
			res.violate("packet-delivered-on-another-rid", fmt.Sprintf("rid %s was sent; packets arrived on %v", c.Rid, others))
		}
		bySeq := map[uint16]sentPkt{}
		for _, sp := range sentPkts {
			bySeq[sp.seq] = sp
		}
		seen := map[uint16]int{}
		for _, g := range got {
			sp, ok := bySeq[g.h.SequenceNumber]
			if !ok {
				res.violate("received-packet-never-sent:simulcast", fmt.Sprintf("seq %d ssrc %#x pt %d", g.h.SequenceNumber, g.h.SSRC, g.h.PayloadType))
				continue
			}
			via := "primary"
			if sp.rtx {
				via = "rtx"
				res.stat("rtx_packets_unwrapped", 1)
			}
			seen[sp.seq]++
			if seen[sp.seq] > 1 {
				res.violate("packet-delivered-twice:simulcast", fmt.Sprintf("seq %d", sp.seq))
			}
			if g.h.SSRC != primary {
				res.violate("received-ssrc-not-the-primary-streams:"+via+":simulcast", fmt.Sprintf("seq %d arrived with SSRC %#x, the primary stream of rid %s uses %#x (repair stream %#x)", sp.seq, g.h.SSRC, c.Rid, primary, repair))
			}
			if int(g.h.PayloadType) != pt {
				res.violate("received-payload-type-not-the-negotiated-one:"+via+":simulcast", fmt.Sprintf("seq %d arrived with payload type %d, negotiated %d", sp.seq, g.h.PayloadType, pt))
			}
			if !bytes.Equal(g.pay, sp.pay) {
				res.violate("payload-changed:"+via+":simulcast", fmt.Sprintf("seq %d: %d bytes received, %d sent", sp.seq, len(g.pay), len(sp.pay)))
			}
			if g.h.Timestamp != sp.ts {
				res.violate("timestamp-changed:"+via+":simulcast", fmt.Sprintf("seq %d: ts %d received, %d sent", sp.seq, g.h.Timestamp, sp.ts))
			}
		}
		for _, sp := range sentPkts {
			if seen[sp.seq] == 0 {
				via := "primary"
				if sp.rtx {
					via = "rtx"
				}
				res.violate("packet-lost-on-fault-free-network:"+via+":simulcast", fmt.Sprintf("seq %d never arrived; %d of %d arrived", sp.seq, len(got), total))
				break
			}
		}
	})
	res.Log = lines
	res.Sig = vfSig(append([]string{string(cj)}, lines...))
	if res.Stats["inconclusive_simulcast_extensions_or_rtx_not_negotiated"] == 0 && (res.Verdict == "ok" || res.Verdict == "violation") {
		res.Nontrivial = res.Sig
	}
}

var _ = rtp.Header{}
var _ *srtp.Context

func init() {
	vfRegister(&vfProp{
		ID: "C26S", Level: "exploration", ReplayClass: "decision-exact",
		Gen: c26sGen, Run: c26sRun,
		Rule: "case = a connected pair whose sender offers one VP8 section with rids h/m/l, RTX and no a=ssrc lines; for one rid the simulated sender writes hand-built RTP through its own SRTP context: optionally two RTX probe packets first (repair stream bound before the primary), 4-12 originals of which ~40% travel only as RFC 4588 retransmissions, two trailing originals; mid/rid/repaired-rid extensions on every packet or only on the first three; non-trivial = simulcast extensions and RTX negotiated, distinct = hash of (case, outcome)",
		Real: []string{"both PeerConnections with real ICE, DTLS, SRTP, simulcast probing (handleIncomingSSRC), RTPReceiver/TrackRemote", "vnet"},
		Stub: []string{"the sender's media path: hand-built RTP protected with a separate SRTP context", "signaling: in-process, strips a=ssrc lines", "network: vnet, constant delay"},
	})
}
