//go:build !js

package webrtc

// C19 — data channels deliver messages exactly once, in order, intact.
// Engine B: two real PeerConnections (real ICE, DTLS, SCTP) in one bubble; the simulated network
// delays, reorders (jitter), drops, duplicates and partitions datagrams; then faults stop and a
// bounded-liveness oracle requires full delivery.

import (
	"bytes"
	"encoding/binary"
	"encoding/json"
	"fmt"
	"sync"
	"testing"
	"time"
)

type c19Msg struct {
	Size int  `json:"size"`
	Text bool `json:"text,omitempty"`
}

type c19Chan struct {
	Label     string   `json:"label"`
	Protocol  string   `json:"protocol,omitempty"`
	Unordered bool     `json:"unordered,omitempty"`
	MaxRtx    *uint16  `json:"max_rtx,omitempty"`
	MaxLifeMs *uint16  `json:"max_life_ms,omitempty"`
	FromB     bool     `json:"from_b,omitempty"`    // created by the answerer
	PreOffer  bool     `json:"pre_offer,omitempty"` // created before the offer (only for A)
	Msgs      []c19Msg `json:"msgs"`
}

type c19Case struct {
	NetSeed  uint64    `json:"net_seed"`
	Net      vfNetCfg  `json:"net"`
	Channels []c19Chan `json:"channels"`
	DataSeed uint64    `json:"data_seed"`
	// Reenter: the OnMessage handlers read the channel's accessors (an echo server does).
	// Poke: while messages flow, another goroutine keeps using the receiving channels' setters and
	// the connection's GetStats (calls that take the channel's lock for writing).
	Reenter bool `json:"reenter,omitempty"`
	Poke    bool `json:"poke,omitempty"`
	// AnnounceMs: the OnDataChannel handler takes this much (fake) time before it registers
	// OnMessage, while the creating side already sends.
	AnnounceMs int `json:"announce_ms,omitempty"`
}

func vfGenNet(r *vfRand, faulty bool) vfNetCfg {
	n := vfNetCfg{BaseDelayUs: r.Range(0, 30000)}
	if !faulty {
		return n
	}
	n.JitterUs = vfPick(r, []int{0, 2000, 20000, 80000})
	n.Drop = vfPick(r, []float64{0, 0.01, 0.05, 0.12})
	n.Dup = vfPick(r, []float64{0, 0.02, 0.1})
	n.Corrupt = vfPick(r, []float64{0, 0, 0.02})
	n.FaultsUntilMs = r.Range(2000, 12000)
	np := r.Intn(3)
	for i := 0; i < np; i++ {
		from := r.Range(0, n.FaultsUntilMs)
		n.Partitions = append(n.Partitions, vfWindow{from, from + r.Range(50, 2500)})
	}
	return n
}

func c19Gen(seed uint64, idx, total int, tier string) any {
	r := vfNewRand(seed, "c19")
	c := &c19Case{NetSeed: r.U64(), DataSeed: r.U64(), Net: vfGenNet(r, r.Bool(0.7)), Reenter: r.Bool(0.5), Poke: r.Bool(0.5)}
	nc := r.Range(1, 4)
	for i := 0; i < nc; i++ {
		ch := c19Chan{Label: fmt.Sprintf("ch%d-%x", i, r.Intn(1<<16)), PreOffer: i == 0 || r.Bool(0.3)}
		if r.Bool(0.5) {
			ch.Protocol = vfPick(r, []string{"", "proto-x", "json", "ünï"})
		}
		if i > 0 && r.Bool(0.4) {
			ch.FromB = true
			ch.PreOffer = false
		}
		switch r.Intn(6) {
		case 0:
			ch.Unordered = true
		case 1:
			v := uint16(r.Intn(3))
			ch.MaxRtx = &v
		case 2:
			v := uint16(r.Range(1, 500))
			ch.MaxLifeMs = &v
			ch.Unordered = r.Bool(0.5)
		}
		nm := r.Range(1, 12)
		for j := 0; j < nm; j++ {
			m := c19Msg{Text: r.Bool(0.4)}
			switch x := r.Intn(10); {
			case x == 0:
				m.Size = 0
			case x < 6:
				m.Size = r.Range(1, 200)
			case x < 9:
				m.Size = r.Range(200, 5000)
			default:
				m.Size = r.Range(5000, 65535)
			}
			ch.Msgs = append(ch.Msgs, m)
		}
		c.Channels = append(c.Channels, ch)
	}
	c.AnnounceMs = vfPick(r, []int{0, 0, 0, 150, 1500, 2500})
	return c
}

type c19Recv struct {
	data []byte
	text bool
}

type c19State struct {
	mu       sync.Mutex
	sent     [][]byte // payloads whose Send returned nil, in order
	sentText []bool
	recv     []c19Recv
	remote   *DataChannel
	local    *DataChannel
	sendErrs int
}

func c19Payload(seed uint64, ci, mi int, m c19Msg) []byte {
	if m.Size == 0 {
		return []byte{}
	}
	b := vfNewRand(seed, fmt.Sprintf("p%d.%d", ci, mi)).Bytes(m.Size)
	if m.Text {
		for i := range b {
			b[i] = 'a' + b[i]%26
		}
	}
	// unique prefix: channel and message index
	var pre [6]byte
	binary.BigEndian.PutUint16(pre[0:], uint16(ci))
	binary.BigEndian.PutUint32(pre[2:], uint32(mi))
	if m.Text {
		copy(b, fmt.Sprintf("%02d.%04d|", ci, mi))
	} else {
		copy(b, pre[:])
	}
	return b
}

func c19Run(t *testing.T, cj []byte, res *vfResult) {
	var c c19Case
	if err := json.Unmarshal(cj, &c); err != nil {
		res.Verdict, res.Detail = "error", err.Error()
		return
	}
	faulty := c.Net.Drop > 0 || c.Net.Dup > 0 || c.Net.Corrupt > 0 || len(c.Net.Partitions) > 0 || c.Net.JitterUs > 0
	var lines []string
	leftover := vfBubble(t, func(t *testing.T) {
		t0 := time.Now()
		nw, err := vfNewNetSim(c.NetSeed, c.Net)
		if err != nil {
			res.Verdict, res.Detail = "error", err.Error()
			return
		}
		na, _ := nw.addHost("10.0.0.2")
		nb, _ := nw.addHost("10.0.0.3")
		if err = nw.Start(); err != nil {
			res.Verdict, res.Detail = "error", err.Error()
			return
		}
		a, err := vfNewPeer("A", na)
		if err != nil {
			res.Verdict, res.Detail = "error", err.Error()
			return
		}
		b, err := vfNewPeer("B", nb)
		if err != nil {
			res.Verdict, res.Detail = "error", err.Error()
			return
		}
		defer func() {
			_ = a.pc.Close()
			_ = b.pc.Close()
			nw.Stop()
			res.SimNs = int64(time.Since(t0))
			vfMergeNetStats(res, nw)
		}()
		states := make([]*c19State, len(c.Channels))
		byLabel := map[string]*c19State{}
		for i := range c.Channels {
			states[i] = &c19State{}
			byLabel[c.Channels[i].Label] = states[i]
		}
		onRemote := func(dc *DataChannel) {
			st := byLabel[dc.Label()]
			if st == nil {
				res.violate("unknown-remote-channel", "remote side announced channel with label "+dc.Label())
				return
			}
			st.mu.Lock()
			if st.remote != nil {
				st.mu.Unlock()
				res.violate("channel-announced-twice", "OnDataChannel fired twice for label "+dc.Label())
				return
			}
			st.remote = dc
			st.mu.Unlock()
			if c.AnnounceMs > 0 {
				time.Sleep(time.Duration(c.AnnounceMs) * time.Millisecond) // a handler that sets things up first
			}
			dc.OnMessage(func(m DataChannelMessage) {
				if c.Reenter {
					_ = dc.Label()
					_ = dc.ReadyState()
					_ = dc.BufferedAmount()
					_ = dc.ID()
				}
				st.mu.Lock()
				st.recv = append(st.recv, c19Recv{append([]byte{}, m.Data...), m.IsString})
				st.mu.Unlock()
			})
			if c.Poke {
				go func() {
					for i := 0; i < 4000 && dc.ReadyState() != DataChannelStateClosed; i++ {
						dc.SetBufferedAmountLowThreshold(uint64(1000 + i))
						dc.OnBufferedAmountLow(func() {})
						if i%8 == 0 {
							_ = a.pc.GetStats()
							_ = b.pc.GetStats()
						}
						time.Sleep(3 * time.Millisecond)
					}
				}()
			}
		}
		a.pc.OnDataChannel(onRemote)
		b.pc.OnDataChannel(onRemote)
		create := func(i int) error {
			ch := c.Channels[i]
			p := a
			if ch.FromB {
				p = b
			}
			init := &DataChannelInit{}
			if ch.Unordered {
				f := false
				init.Ordered = &f
			}
			init.MaxRetransmits = ch.MaxRtx
			init.MaxPacketLifeTime = ch.MaxLifeMs
			if ch.Protocol != "" {
				pr := ch.Protocol
				init.Protocol = &pr
			}
			dc, err := p.pc.CreateDataChannel(ch.Label, init)
			if err != nil {
				return err
			}
			states[i].local = dc
			return nil
		}
		for i, ch := range c.Channels {
			if ch.PreOffer && !ch.FromB {
				if err := create(i); err != nil {
					res.Verdict, res.Detail = "error", "CreateDataChannel: "+err.Error()
					return
				}
			}
		}
		if err := vfConnectPair(a, b); err != nil {
			res.Verdict, res.Detail = "error", "negotiation: "+err.Error()
			return
		}
		connected := vfWaitFor(90*time.Second, func() bool {
			return a.pc.ConnectionState() == PeerConnectionStateConnected && b.pc.ConnectionState() == PeerConnectionStateConnected
		})
		if !connected {
			res.stat("inconclusive_not_connected", 1)
			lines = append(lines, fmt.Sprintf("not connected: A=%s B=%s", a.pc.ConnectionState(), b.pc.ConnectionState()))
			if !faulty {
				res.violate("no-connection-on-fault-free-network", fmt.Sprintf("A=%s B=%s after 90 s fake", a.pc.ConnectionState(), b.pc.ConnectionState()))
			}
			return
		}
		for i, ch := range c.Channels {
			if states[i].local == nil {
				if err := create(i); err != nil {
					res.Verdict, res.Detail = "error", "CreateDataChannel(late): "+err.Error()
					return
				}
			}
			_ = ch
		}
		// wait for all local channels to open
		opened := vfWaitFor(60*time.Second, func() bool {
			for _, st := range states {
				if st.local.ReadyState() != DataChannelStateOpen {
					return false
				}
			}
			return true
		})
		if !opened {
			res.stat("inconclusive_not_open", 1)
			if !faulty {
				res.violate("channel-never-opened-on-fault-free-network", "a created data channel did not reach open within 60 s fake")
			}
			return
		}
		// send, round-robin over channels so that channels run in parallel
		maxMsgs := 0
		for _, ch := range c.Channels {
			if len(ch.Msgs) > maxMsgs {
				maxMsgs = len(ch.Msgs)
			}
		}
		for mi := 0; mi < maxMsgs; mi++ {
			for ci, ch := range c.Channels {
				if mi >= len(ch.Msgs) {
					continue
				}
				m := ch.Msgs[mi]
				pl := c19Payload(c.DataSeed, ci, mi, m)
				st := states[ci]
				var err error
				if m.Text {
					err = st.local.SendText(string(pl))
				} else {
					err = st.local.Send(pl)
				}
				if err != nil {
					st.sendErrs++
					res.stat("send_errors", 1)
					continue
				}
				st.sent = append(st.sent, pl)
				st.sentText = append(st.sentText, m.Text)
			}
			if mi%3 == 2 {
				vfSettle(time.Duration(5+mi) * time.Millisecond)
				// invariant during the run: reliable ordered channels always hold a prefix
				for ci, st := range states {
					c19Check(res, c.Channels[ci], st, false)
				}
			}
		}
		// faults stop; bounded liveness
		wait := 60 * time.Second
		if c.Net.FaultsUntilMs > 0 {
			if rest := time.Duration(c.Net.FaultsUntilMs)*time.Millisecond - time.Since(nw.start); rest > 0 {
				time.Sleep(rest)
			}
		}
		vfWaitFor(wait, func() bool {
			for ci, st := range states {
				ch := c.Channels[ci]
				st.mu.Lock()
				n := len(st.recv)
				announced := st.remote != nil
				st.mu.Unlock()
				if !announced {
					return false // the in-band open message is reliable whatever the channel's own reliability
				}
				if ch.MaxRtx != nil || ch.MaxLifeMs != nil {
					continue
				}
				if n < len(st.sent) {
					return false
				}
			}
			return true
		})
		vfSettle(500 * time.Millisecond)
		alive := a.pc.ConnectionState() == PeerConnectionStateConnected && b.pc.ConnectionState() == PeerConnectionStateConnected
		if !alive {
			res.stat("inconclusive_connection_lost", 1)
		}
		for ci, st := range states {
			ch := c.Channels[ci]
			c19Check(res, ch, st, alive)
			st.mu.Lock()
			lines = append(lines, fmt.Sprintf("%s sent=%d recv=%d sendErrs=%d", ch.Label, len(st.sent), len(st.recv), st.sendErrs))
			rem := st.remote
			st.mu.Unlock()
			if rem == nil {
				if alive {
					res.violate("in-band-channel-never-announced", "channel "+ch.Label+" never appeared on the remote peer")
				}
				continue
			}
			// in-band parameters
			wantOrdered := !ch.Unordered
			if rem.Label() != ch.Label || rem.Protocol() != ch.Protocol || rem.Ordered() != wantOrdered ||
				!c19EqU16(rem.MaxRetransmits(), ch.MaxRtx) || !c19EqU16(rem.MaxPacketLifeTime(), ch.MaxLifeMs) {
				res.violate("remote-channel-parameters-differ", fmt.Sprintf("channel %q: remote has label=%q protocol=%q ordered=%v maxRtx=%s maxLife=%s; created with protocol=%q ordered=%v maxRtx=%s maxLife=%s",
					ch.Label, rem.Label(), rem.Protocol(), rem.Ordered(), c19U16(rem.MaxRetransmits()), c19U16(rem.MaxPacketLifeTime()), ch.Protocol, wantOrdered, c19U16(ch.MaxRtx), c19U16(ch.MaxLifeMs)))
			}
		}
		lines = append(lines, fmt.Sprintf("connected alive=%v faulty=%v", alive, faulty))
	})
	if leftover != "" {
		res.stat("bubble_leftover_goroutines", 1)
	}
	res.Log = lines
	res.Sig = vfSig(lines)
	if faulty {
		res.stat("runs_faulty", 1)
	} else {
		res.stat("runs_fault_free", 1)
	}
	if res.Stats["inconclusive_not_connected"] == 0 {
		res.Nontrivial = fmt.Sprintf("%s/%v", res.Sig, faulty)
	}
}

func c19U16(p *uint16) string {
	if p == nil {
		return "nil"
	}
	return fmt.Sprint(*p)
}

func c19EqU16(a, b *uint16) bool {
	if a == nil || b == nil {
		return a == nil && b == nil
	}
	return *a == *b
}

// c19Check evaluates the delivery oracle for one channel. final=true additionally requires
// complete delivery on reliable channels (faults have stopped and the liveness budget elapsed).
func c19Check(res *vfResult, ch c19Chan, st *c19State, final bool) {
	st.mu.Lock()
	recv := append([]c19Recv{}, st.recv...)
	st.mu.Unlock()
	reliable := ch.MaxRtx == nil && ch.MaxLifeMs == nil
	ordered := !ch.Unordered
	used := make([]bool, len(st.sent))
	last := -1
	for ri, r := range recv {
		idx := -1
		for si, s := range st.sent {
			if !used[si] && bytes.Equal(s, r.data) && st.sentText[si] == r.text {
				idx = si
				break
			}
		}
		if idx < 0 { // same bytes with the other flag => the flag changed (empty payloads are not unique)
			for si, s := range st.sent {
				if !used[si] && bytes.Equal(s, r.data) {
					idx = si
					break
				}
			}
		}
		if idx < 0 {
			// duplicate or corrupted?
			dup := false
			for _, s := range st.sent {
				if bytes.Equal(s, r.data) {
					dup = true
				}
			}
			if dup {
				res.violate("message-delivered-twice", fmt.Sprintf("channel %q: message #%d received (len %d) had already been delivered", ch.Label, ri, len(r.data)))
			} else {
				res.violate("message-not-intact", fmt.Sprintf("channel %q: received message #%d (len %d) equals no sent message", ch.Label, ri, len(r.data)))
			}
			return
		}
		used[idx] = true
		if r.text != st.sentText[idx] {
			res.violate("text-binary-flag-changed", fmt.Sprintf("channel %q: message %d sent text=%v received text=%v", ch.Label, idx, st.sentText[idx], r.text))
			return
		}
		if ordered {
			if reliable && idx != ri {
				res.violate("reliable-ordered-channel-out-of-order-or-gap", fmt.Sprintf("channel %q: received #%d is sent message %d", ch.Label, ri, idx))
				return
			}
			if idx < last {
				// (only reached for ordered channels with a retransmission or lifetime limit: C19 speaks
				// about reliable ordered channels; what pion/sctp does with abandoned messages under loss
				// and duplication is counted, not judged)
				res.stat("partially_reliable_ordered_channel_delivered_out_of_order_not_judged", 1)
				continue
			}
			last = idx
		}
	}
	if final && reliable && len(recv) != len(st.sent) {
		res.violate("reliable-message-not-delivered-after-faults-stopped", fmt.Sprintf("channel %q: %d of %d accepted messages delivered 60 s (fake) after the last fault", ch.Label, len(recv), len(st.sent)))
	}
}

func init() {
	vfRegister(&vfProp{
		ID: "C19", Level: "exploration", ReplayClass: "decision-exact",
		Rule: "case = 1-4 data channels with random parameters (label, protocol, ordered, maxRetransmits, maxPacketLifeTime, created by either side, before or after the offer) with an OnDataChannel handler that may take up to 2.5 s (fake) before it registers OnMessage, carrying 1-12 unique messages of 0..65535 bytes (text/binary) between two real connected PeerConnections; 30% of runs on a fault-free constant-delay network, 70% with seeded jitter/reordering, loss, duplication, corruption and partitions that stop after 2-12 s fake; non-trivial = the pair connected, distinct = hash of per-channel sent/received counts and fault configuration",
		Real: []string{"webrtc PeerConnection/DataChannel/SCTPTransport/DTLSTransport/ICETransport (instrumented locks)", "pion/ice, dtls, sctp, datachannel, srtp, interceptor (unmodified)", "pion/transport vnet router"},
		Stub: []string{"network: vnet router wrapped by the seeded per-datagram fate function (drop/dup/corrupt/delay/partition)", "signaling: in-process, non-trickle"},
		Assumptions: []string{"liveness budget 60 s fake after the last fault; runs where ICE failed or the connection was lost are counted inconclusive for completeness, never for integrity",
			"goroutine interleaving inside the Go runtime is not controlled (decision-exact replay)"},
		Shrink: []string{"channels", "net.partitions", "dc.tasks"},
		Gen: func(seed uint64, idx, total int, tier string) any {
			if idx%4 == 3 {
				// schedule-dependent part: channels created while the transports are coming up, under
				// the focus-coop scheduler (dcsim_test.go); oracle = the channel opens and is announced
				return map[string]any{"mode": "coop", "dc": dcGenFor("C19")(seed, idx, total, tier)}
			}
			return c19Gen(seed, idx, total, tier)
		},
		Run: func(t *testing.T, cj []byte, res *vfResult) {
			var probe struct {
				Mode string          `json:"mode"`
				DC   json.RawMessage `json:"dc"`
			}
			if json.Unmarshal(cj, &probe) == nil && probe.Mode == "coop" {
				dcRunFor("C19")(t, probe.DC, res)
				res.stat("runs_coop_creation", 1)
				if len(res.Case) > 0 { // keep the wrapper around a rewritten (schedule-carrying) case
					res.Case, _ = json.Marshal(map[string]any{"mode": "coop", "dc": json.RawMessage(res.Case)})
				}
				return
			}
			c19Run(t, cj, res)
		},
	})
}
