//go:build !js

package webrtc

// C23 (media written to a local track arrives intact on the negotiated stream) and C26 (RTX
// packets are unwrapped into the original packets). Engine B, free mode: a real connected pair
// (ICE, DTLS, SRTP, interceptors) on the simulated network. For C26 the simulated sender "loses"
// selected originals and puts only their RFC 4588 retransmission on the wire (written through
// the sender's SRTP stream with the RTX SSRC / payload type), with generated CSRC lists,
// header extensions and padding.

import (
	"bytes"
	"encoding/binary"
	"encoding/json"
	"fmt"
	"strings"
	"sync"
	"sync/atomic"
	"testing"
	"time"

	"github.com/pion/rtp"
	"github.com/pion/srtp/v3"
)

type mdPkt struct {
	PayLen  int  `json:"pay_len"`
	Marker  bool `json:"marker,omitempty"`
	TsStep  int  `json:"ts_step"`
	CSRC    int  `json:"csrc,omitempty"`     // RTX form: number of CSRCs 0..15
	ExtKind int  `json:"ext_kind,omitempty"` // RTX form: 0 none, 1 one-byte profile, 2 two-byte profile, 3 other profile
	ExtLen  int  `json:"ext_len,omitempty"`  // words
	Pad     int  `json:"pad,omitempty"`      // RTX form: padding bytes 0..255
	AsRTX   bool `json:"as_rtx,omitempty"`   // the original is "lost", only its retransmission is sent
	Short   int  `json:"short,omitempty"`    // RTX form: 1 = no payload at all, 2 = one payload byte (no room for the OSN)
	Settle  bool `json:"settle,omitempty"`   // pause after this packet until everything has been delivered and read
}

type mdCase struct {
	Prop     string   `json:"prop"`
	Codec    string   `json:"codec"` // opus vp8 vp9 h264 av1
	BOffers  bool     `json:"b_offers,omitempty"`
	Icpt     bool     `json:"interceptors,omitempty"` // both peers run pion's default interceptors (NACK + RTX retransmission, reports, TWCC)
	BurstAt  int      `json:"burst_at,omitempty"`     // the network loses the first transmission of BurstLen consecutive packets from this index
	BurstLen int      `json:"burst_len,omitempty"`
	RichHdr  bool     `json:"rich_hdr,omitempty"`     // written packets carry a CSRC and a one-byte header extension
	Hold     bool     `json:"hold,omitempty"`         // the reader keeps the packets ReadRTP returned instead of copying them at once
	Extra    int      `json:"extra_tracks,omitempty"` // further tracks in the bundle
	WithDC   bool     `json:"with_dc,omitempty"`
	Net      vfNetCfg `json:"net"`
	NetSeed  uint64   `json:"net_seed"`
	Seq0     uint16   `json:"seq0"`
	Ts0      uint32   `json:"ts0"`
	Pkts     []mdPkt  `json:"pkts"`
	Data     uint64   `json:"data_seed"`
	// Reneg (C23): afterwards the sender replaces its track (1: same track id, another stream id;
	// 2: another track id and stream id), the pair renegotiates (RenegB: the receiving side offers)
	// and a few more packets are written.
	// SwitchAt (C26): from this packet on the primary stream uses another payload type the section
	// negotiated (and its retransmissions that codec's RTX payload type)
	SwitchAt int  `json:"switch_at,omitempty"`
	Reneg    int  `json:"reneg,omitempty"`
	RenegB   bool `json:"reneg_b,omitempty"`
}

var mdCaps = map[string]RTPCodecCapability{
	"opus": {MimeType: MimeTypeOpus, ClockRate: 48000, Channels: 2},
	"vp8":  {MimeType: MimeTypeVP8, ClockRate: 90000},
	"vp9":  {MimeType: MimeTypeVP9, ClockRate: 90000, SDPFmtpLine: "profile-id=0"},
	"h264": {MimeType: MimeTypeH264, ClockRate: 90000, SDPFmtpLine: "level-asymmetry-allowed=1;packetization-mode=1;profile-level-id=42e01f"},
	"av1":  {MimeType: MimeTypeAV1, ClockRate: 90000},
}

func mdGenFor(prop string) func(seed uint64, idx, total int, tier string) any {
	return func(seed uint64, idx, total int, tier string) any {
		r := vfNewRand(seed, "md"+prop)
		c := &mdCase{Prop: prop, Codec: vfPick(r, []string{"opus", "vp8", "vp9", "h264", "av1"}), BOffers: r.Bool(0.3), Extra: vfPick(r, []int{0, 0, 1, 2}), WithDC: r.Bool(0.4),
			NetSeed: r.U64(), Seq0: uint16(vfPick(r, []int{0, 1, 65530, r.Intn(65536)})), Ts0: uint32(r.U64()), Data: r.U64()}
		c.Hold = r.Bool(0.5)
		faulty := prop == "C23" && r.Bool(0.5)
		c.Net = vfNetCfg{BaseDelayUs: r.Range(0, 20000)}
		if faulty {
			c.Net.JitterUs = vfPick(r, []int{0, 5000, 40000})
			c.Net.Drop = vfPick(r, []float64{0.02, 0.1})
			c.Net.Dup = vfPick(r, []float64{0, 0.05})
		}
		if prop == "C26" {
			c.Codec = vfPick(r, []string{"vp8", "vp9", "h264", "av1"}) // RTX is negotiated for video
		}
		n := r.Range(3, 25)
		if prop == "C23" && r.Bool(0.4) {
			c.Icpt = true
			if r.Bool(0.7) {
				c.BurstAt, c.BurstLen = r.Range(1, n-1), r.Range(1, 4)
			}
		}
		for i := 0; i < n; i++ {
			p := mdPkt{PayLen: vfPick(r, []int{1, 2, 10, 100, 800, 1100, r.Range(1, 1100)}), Marker: r.Bool(0.3), TsStep: vfPick(r, []int{0, 960, 3000, 90000})}
			if prop == "C26" && r.Bool(0.6) {
				p.AsRTX = true
				p.CSRC = vfPick(r, []int{0, 0, 1, 3, 15, r.Intn(16)})
				p.ExtKind = r.Intn(4)
				p.ExtLen = vfPick(r, []int{0, 1, 2, 5, r.Intn(8)})
				p.Pad = vfPick(r, []int{0, 0, 1, 4, 37, 255})
				p.PayLen = vfPick(r, []int{0, 1, 2, 50, 1000, r.Range(0, 1000)})
				if r.Bool(0.12) {
					p.Short = r.Range(1, 2)
				}
			}
			c.Pkts = append(c.Pkts, p)
		}
		if prop == "C26" && r.Bool(0.12) {
			// a sustained stream of large retransmissions, each read by the application before the next
			// arrives: the receiver's buffers go round through its pool a hundred times
			// (1440 payload bytes: with the OSN, the header and the SRTP tag just under an Ethernet-sized datagram)
			for k := r.Range(80, 120); k > 0; k-- {
				c.Pkts = append(c.Pkts, mdPkt{PayLen: 1440, TsStep: 3000, AsRTX: true}, mdPkt{PayLen: 20, TsStep: 3000, Settle: true})
			}
		}
		if prop == "C26" && r.Bool(0.3) && len(c.Pkts) >= 4 && int(c.Seq0)+len(c.Pkts)+4 < 65000 {
			c.SwitchAt = r.Range(2, len(c.Pkts)-1)
		}
		if prop == "C23" {
			c.RichHdr = r.Bool(0.5)
			if !faulty && r.Bool(0.5) {
				c.Reneg, c.RenegB = r.Range(1, 2), r.Bool(0.5)
			}
		}
		return c
	}
}

type mdRecv struct {
	h   rtp.Header
	pay []byte
}

func mdRunFor(prop string) func(t *testing.T, cj []byte, res *vfResult) {
	return func(t *testing.T, cj []byte, res *vfResult) {
		var c mdCase
		if err := json.Unmarshal(cj, &c); err != nil {
			res.Verdict, res.Detail = "error", err.Error()
			return
		}
		capab, ok := mdCaps[c.Codec]
		if !ok {
			res.Verdict, res.Detail = "error", "unknown codec"
			return
		}
		faulty := c.Net.Drop > 0 || c.Net.Dup > 0 || c.Net.JitterUs > 0 || c.BurstLen > 0
		var lines []string
		vfPeerInterceptors = c.Icpt
		defer func() { vfPeerInterceptors = false }()
		vfBubble(t, func(t *testing.T) {
			t0 := time.Now()
			nw, err := vfNewNetSim(c.NetSeed, c.Net)
			if err != nil {
				res.Verdict, res.Detail = "error", err.Error()
				return
			}
			var burstSSRC atomic.Uint32
			var burstMu sync.Mutex
			burstDone := map[uint16]bool{}
			if c.BurstLen > 0 {
				nw.filter = func(from, to string, p []byte) []byte {
					// SRTP leaves the RTP header in the clear: first transmissions of the chosen packets vanish
					want := burstSSRC.Load()
					if want == 0 || len(p) < 12 || p[0]&0xC0 != 0x80 || binary.BigEndian.Uint32(p[8:12]) != want {
						return p
					}
					seq := binary.BigEndian.Uint16(p[2:4])
					idx := int(uint16(seq - c.Seq0))
					burstMu.Lock()
					defer burstMu.Unlock()
					if idx >= c.BurstAt && idx < c.BurstAt+c.BurstLen && !burstDone[seq] {
						burstDone[seq] = true
						return nil
					}
					return p
				}
			}
			ha, _ := nw.addHost("10.0.1.2")
			hb, _ := nw.addHost("10.0.2.2")
			_ = nw.Start()
			a, err := vfNewPeer("A", ha)
			if err != nil {
				res.Verdict, res.Detail = "error", err.Error()
				return
			}
			b, err := vfNewPeer("B", hb)
			if err != nil {
				res.Verdict, res.Detail = "error", err.Error()
				return
			}
			defer func() {
				_ = a.pc.Close()
				_ = b.pc.Close()
				nw.Stop()
				res.SimNs = int64(time.Since(t0))
				vfMergeNetStats(res, nw)
			}()
			var mu sync.Mutex
			viaRTX := 0
			recv := map[string][]mdRecv{} // by remote track id
			var remoteTracks []*TrackRemote
			b.pc.OnTrack(func(tr *TrackRemote, rc *RTPReceiver) {
				mu.Lock()
				remoteTracks = append(remoteTracks, tr)
				mu.Unlock()
				go func() {
					for {
						p, attr, err := tr.ReadRTP()
						if err != nil {
							return
						}
						mu.Lock()
						if attr != nil && attr.Get(AttributeRtxSequenceNumber) != nil {
							viaRTX++
						}
						if c.Hold {
							// the application keeps what ReadRTP returned (a jitter buffer does): it is looked at
							// only after everything has arrived
							recv[tr.ID()] = append(recv[tr.ID()], mdRecv{p.Header, p.Payload})
						} else {
							recv[tr.ID()] = append(recv[tr.ID()], mdRecv{p.Header.Clone(), append([]byte{}, p.Payload...)})
						}
						mu.Unlock()
					}
				}()
			})
			track, err := NewTrackLocalStaticRTP(capab, "trk-main", "strm-main")
			if err != nil {
				res.Verdict, res.Detail = "error", err.Error()
				return
			}
			kind := RTPCodecTypeVideo
			if strings.HasPrefix(capab.MimeType, "audio/") {
				kind = RTPCodecTypeAudio
			}
			var sender *RTPSender
			addExtras := func() {
				for i := 0; i < c.Extra; i++ {
					ec := mdCaps[[]string{"opus", "vp8"}[i%2]]
					et, _ := NewTrackLocalStaticRTP(ec, fmt.Sprintf("trk-x%d", i), fmt.Sprintf("strm-x%d", i))
					_, _ = a.pc.AddTrack(et)
				}
				if c.WithDC {
					_, _ = a.pc.CreateDataChannel("d", nil)
				}
			}
			if !c.BOffers {
				if sender, err = a.pc.AddTrack(track); err != nil {
					res.Verdict, res.Detail = "error", "AddTrack: "+err.Error()
					return
				}
				addExtras()
				if err = vfConnectPair(a, b); err != nil {
					res.Verdict, res.Detail = "error", "negotiation: "+err.Error()
					return
				}
			} else {
				// the receiving side offers a recvonly section, the sender attaches its track while answering
				if _, err = b.pc.AddTransceiverFromKind(kind, RTPTransceiverInit{Direction: RTPTransceiverDirectionRecvonly}); err != nil {
					res.Verdict, res.Detail = "error", err.Error()
					return
				}
				off, err := b.pc.CreateOffer(nil)
				if err == nil {
					err = b.pc.SetLocalDescription(off)
				}
				if err == nil {
					err = a.pc.SetRemoteDescription(*vfGatherDone(b))
				}
				if err == nil {
					sender, err = a.pc.AddTrack(track)
				}
				var ans SessionDescription
				if err == nil {
					ans, err = a.pc.CreateAnswer(nil)
				}
				if err == nil {
					err = a.pc.SetLocalDescription(ans)
				}
				if err == nil {
					err = b.pc.SetRemoteDescription(*vfGatherDone(a))
				}
				if err != nil {
					res.Verdict, res.Detail = "error", "negotiation (B offers): "+err.Error()
					return
				}
			}
			if !vfWaitFor(60*time.Second, func() bool {
				return a.pc.ConnectionState() == PeerConnectionStateConnected && b.pc.ConnectionState() == PeerConnectionStateConnected
			}) {
				res.stat("inconclusive_not_connected", 1)
				if !faulty {
					res.violate("no-connection-on-fault-free-network", fmt.Sprintf("A=%s B=%s", a.pc.ConnectionState(), b.pc.ConnectionState()))
				}
				return
			}
			vfDrain(30*time.Second, a, b)
			// what the sender's description announces
			ld := vfParseSDP(a.pc.LocalDescription().SDP)
			announced := map[string]bool{}
			secMid := ""
			for _, s := range ld.Sections {
				mine := false
				for _, v := range vfAttrVals(s.Attrs, "msid") {
					if v == "strm-main trk-main" {
						mine = true
					}
				}
				if mine {
					secMid, _ = s.Mid()
					for _, v := range vfAttrVals(s.Attrs, "ssrc") {
						announced[strings.Fields(v + " ")[0]] = true
					}
				}
			}
			enc := sender.GetParameters().Encodings
			if len(enc) == 0 {
				res.Verdict, res.Detail = "error", "sender has no encodings"
				return
			}
			primarySSRC, rtxSSRC := uint32(enc[0].SSRC), uint32(enc[0].RTX.SSRC)
			// negotiated payload types for the codec, from the answer both sides applied
			ansSDP := b.pc.LocalDescription().SDP
			if c.BOffers {
				ansSDP = a.pc.LocalDescription().SDP
			}
			wantPT, rtxPT := -1, -1
			altPT, altRtxPT := -1, -1
			wantName := strings.ToLower(strings.SplitN(capab.MimeType, "/", 2)[1])
			for _, s := range vfParseSDP(ansSDP).Sections {
				if m, _ := s.Mid(); m != secMid {
					continue
				}
				rm := sgRtpmaps(s)
				fm := map[string]string{}
				for _, v := range vfAttrVals(s.Attrs, "fmtp") {
					if fs := strings.SplitN(v, " ", 2); len(fs) == 2 {
						fm[fs[0]] = fs[1]
					}
				}
				// the payload type of the codec configuration the track carries: same name and, where the
				// section lists several configurations (H264 profiles), the same fmtp parameter set
				for pass := 0; pass < 2 && wantPT < 0; pass++ {
					for _, f := range s.Fmts {
						if wantPT < 0 && strings.HasPrefix(rm[f], wantName+"/") && (pass == 1 || mdSameFmtp(fm[f], capab.SDPFmtpLine)) {
							fmt.Sscan(f, &wantPT)
						}
					}
				}
				for _, v := range vfAttrVals(s.Attrs, "fmtp") {
					fs := strings.SplitN(v, " ", 2)
					if len(fs) == 2 && fs[1] == fmt.Sprintf("apt=%d", wantPT) {
						fmt.Sscan(fs[0], &rtxPT)
					}
				}
				// another codec of the section that has a retransmission payload type of its own
				for _, f := range s.Fmts {
					name := strings.SplitN(rm[f], "/", 2)[0]
					if altPT >= 0 || name == wantName || name == "rtx" || name == "red" || name == "ulpfec" || name == "flexfec-03" || name == "" {
						continue
					}
					for _, v := range vfAttrVals(s.Attrs, "fmtp") {
						fs := strings.SplitN(v, " ", 2)
						if len(fs) == 2 && fs[1] == "apt="+f && altPT < 0 {
							fmt.Sscan(f, &altPT)
							fmt.Sscan(fs[0], &altRtxPT)
						}
					}
				}
			}
			lines = append(lines, fmt.Sprintf("codec=%s bOffers=%v mid=%s primarySSRC announced=%v pt=%d rtxSSRC=%d rtxPT=%d faulty=%v", c.Codec, c.BOffers, secMid, announced[fmt.Sprint(primarySSRC)], wantPT, rtxSSRC, rtxPT, faulty))
			// ---- send
			if c.Icpt && sender != nil {
				// an application reads the sender's RTCP; that is what hands NACKs to the responder
				go func() {
					for {
						if _, _, err := sender.ReadRTCP(); err != nil {
							return
						}
					}
				}()
			}
			type sentPkt struct {
				seq  uint16
				ts   uint32
				mark bool
				pay  []byte
				csrc []uint32
				extP uint16
				ext  []byte
				pad  int
				rtx  bool
				drop bool // too short to carry an OSN: must not be delivered
				pt   int  // the primary stream's payload type when this packet is sent
			}
			var sent []sentPkt
			rr := vfNewRand(c.Data, "pay")
			seq, ts := c.Seq0, c.Ts0
			rtxSeq := uint16(rr.Intn(65536))
			canRTX := rtxSSRC != 0 && rtxPT >= 0
			burstSSRC.Store(primarySSRC)
			var rawCtx *srtp.Context
			var rawErr error
			pkts := append([]mdPkt{}, c.Pkts...)
			if prop == "C26" || c.Icpt {
				// TrackRemote.Read looks for unwrapped retransmissions when it is called and then blocks on
				// the primary stream: a trailing original lets the reader come back and drain them
				pkts = append(pkts, mdPkt{PayLen: 12, TsStep: 960}, mdPkt{PayLen: 13, TsStep: 960})
			}
			for i, p := range pkts {
				ts += uint32(p.TsStep)
				sp := sentPkt{seq: seq, ts: ts, mark: p.Marker, pt: wantPT}
				switched := prop == "C26" && c.SwitchAt > 0 && i >= c.SwitchAt && i < len(c.Pkts) && altPT >= 0 && canRTX
				if switched {
					sp.pt = altPT
					if i == c.SwitchAt {
						p.AsRTX, p.Settle = false, true // the first packet with the new payload type is an original, and it is read before anything else is sent
						vfSettle(50 * time.Millisecond) // and everything sent under the old payload type has been received and unwrapped by then
						res.stat("runs_with_primary_payload_type_switch", 1)
					}
				}
				seq++
				n := p.PayLen
				if n < 0 {
					n = 0
				}
				if n > 1100 && !(p.AsRTX && n == 1440) {
					n = 1100
				}
				sp.pay = rr.Bytes(n)
				if n >= 4 {
					binary.BigEndian.PutUint32(sp.pay, uint32(0xC0000000)|uint32(i)) // unique
				}
				if p.AsRTX && canRTX && i > 0 {
					sp.rtx = true
					for k := 0; k < p.CSRC && k < 15; k++ {
						sp.csrc = append(sp.csrc, uint32(rr.U64()))
					}
					switch p.ExtKind {
					case 1:
						sp.extP = 0xBEDE
					case 2:
						sp.extP = 0x1000
					case 3:
						sp.extP = 0xABCD
					}
					if sp.extP != 0 {
						// well-formed RFC 8285 elements for the one-/two-byte profiles (one element per word),
						// opaque bytes for any other profile
						sp.ext = rr.Bytes(4 * (p.ExtLen % 16))
						sparse := p.ExtLen%2 == 1 // only the first word holds an element, the rest is RFC 8285 padding (zero bytes)
						for w := 0; w+4 <= len(sp.ext); w += 4 {
							if sparse && w > 0 && sp.extP != 0xABCD {
								sp.ext[w], sp.ext[w+1], sp.ext[w+2], sp.ext[w+3] = 0, 0, 0, 0
								continue
							}
							id := byte(1 + (w/4)%14)
							switch sp.extP {
							case 0xBEDE:
								sp.ext[w] = id<<4 | 2 // 3 data bytes
							case 0x1000:
								sp.ext[w], sp.ext[w+1] = id, 2 // 2 data bytes
							}
						}
					}
					sp.pad = p.Pad % 256
					// RFC 4588 packet: RTX SSRC / payload type / own sequence number, OSN + original payload
					var raw bytes.Buffer
					b0 := byte(0x80) | byte(len(sp.csrc))
					if sp.pad > 0 {
						b0 |= 0x20
					}
					if sp.extP != 0 {
						b0 |= 0x10
					}
					b1 := byte(rtxPT)
					if switched {
						b1 = byte(altRtxPT)
					}
					if sp.mark {
						b1 |= 0x80
					}
					raw.Write([]byte{b0, b1})
					_ = binary.Write(&raw, binary.BigEndian, rtxSeq)
					rtxSeq++
					_ = binary.Write(&raw, binary.BigEndian, sp.ts)
					_ = binary.Write(&raw, binary.BigEndian, rtxSSRC)
					for _, cs := range sp.csrc {
						_ = binary.Write(&raw, binary.BigEndian, cs)
					}
					if sp.extP != 0 {
						_ = binary.Write(&raw, binary.BigEndian, sp.extP)
						_ = binary.Write(&raw, binary.BigEndian, uint16(len(sp.ext)/4))
						raw.Write(sp.ext)
					}
					switch p.Short {
					case 1: // header only
						sp.drop = true
					case 2:
						raw.WriteByte(byte(sp.seq >> 8)) // half an OSN
						sp.drop = true
					default:
						_ = binary.Write(&raw, binary.BigEndian, sp.seq)
						raw.Write(sp.pay)
					}
					if sp.pad > 0 {
						raw.Write(make([]byte, sp.pad-1))
						raw.WriteByte(byte(sp.pad))
					}
					// pion's own SRTP session re-encodes the RTP header minimally before encrypting, which a
					// remote sender does not do: the packet is protected with a separate SRTP context keyed
					// like the sender's and put on the wire byte for byte as built above
					if rawCtx == nil {
						rawCtx, rawErr = mdRawSRTPContext(a.pc.dtlsTransport)
					}
					if rawErr != nil {
						res.Verdict, res.Detail = "error", "raw srtp context: "+rawErr.Error()
						return
					}
					enc, err := rawCtx.EncryptRTP(nil, raw.Bytes(), nil)
					if err == nil {
						_, err = a.pc.dtlsTransport.srtpEndpoint.Write(enc)
					}
					if err != nil {
						lines = append(lines, "rtx write error: "+err.Error())
					}
					res.stat("rtx_packets_sent", 1)
					lines = append(lines, fmt.Sprintf("rtx for seq %d: csrc=%d ext=%#x/%d bytes pad=%d payload=%d", sp.seq, len(sp.csrc), sp.extP, len(sp.ext), sp.pad, len(sp.pay)))
				} else if switched {
					// an original with the other payload type: put on the wire as a remote sender would
					var raw bytes.Buffer
					b1 := byte(altPT)
					if sp.mark {
						b1 |= 0x80
					}
					raw.Write([]byte{0x80, b1})
					_ = binary.Write(&raw, binary.BigEndian, sp.seq)
					_ = binary.Write(&raw, binary.BigEndian, sp.ts)
					_ = binary.Write(&raw, binary.BigEndian, primarySSRC)
					raw.Write(sp.pay)
					if rawCtx == nil {
						rawCtx, rawErr = mdRawSRTPContext(a.pc.dtlsTransport)
					}
					if rawErr != nil {
						res.Verdict, res.Detail = "error", "raw srtp context: "+rawErr.Error()
						return
					}
					enc, err := rawCtx.EncryptRTP(nil, raw.Bytes(), nil)
					if err == nil {
						_, err = a.pc.dtlsTransport.srtpEndpoint.Write(enc)
					}
					if err != nil {
						lines = append(lines, "raw primary write error: "+err.Error())
					}
				} else {
					pk := &rtp.Packet{Header: rtp.Header{Version: 2, Marker: sp.mark, SequenceNumber: sp.seq, Timestamp: sp.ts, SSRC: 12345, PayloadType: 96}, Payload: sp.pay}
					if c.RichHdr {
						pk.Header.CSRC = []uint32{3}
						_ = pk.Header.SetExtension(13, []byte{byte(sp.seq), 0xA5})
					}
					if err := track.WriteRTP(pk); err != nil {
						lines = append(lines, "WriteRTP error: "+err.Error())
					}
				}
				sent = append(sent, sp)
				if i == 0 {
					// retransmissions follow originals: the remote track exists (first primary packet seen,
					// payload type known) before the first RTX packet is put on the wire
					vfWaitFor(10*time.Second, func() bool { mu.Lock(); defer mu.Unlock(); return len(recv["trk-main"]) > 0 })
				}
				if i%4 == 3 || i >= len(c.Pkts)-1 || p.Settle {
					vfSettle(time.Duration(1+i) * time.Millisecond)
				}
				if c.Icpt && i >= len(c.Pkts)-1 {
					// time for the receiver's NACK and the sender's retransmissions before the trailing originals
					vfSettle(400 * time.Millisecond)
				}
			}
			expect := 0
			for _, sp := range sent {
				if !sp.drop {
					expect++
				}
			}
			vfWaitFor(20*time.Second, func() bool {
				mu.Lock()
				defer mu.Unlock()
				return len(recv["trk-main"]) >= expect
			})
			vfSettle(time.Second)
			mu.Lock()
			got := append([]mdRecv{}, recv["trk-main"]...)
			var rt *TrackRemote
			for _, tr := range remoteTracks {
				if tr.ID() == "trk-main" {
					rt = tr
				}
			}
			mu.Unlock()
			lines = append(lines, fmt.Sprintf("sent=%d (expected to arrive %d) received=%d", len(sent), expect, len(got)))
			mu.Lock()
			res.stat("packets_delivered_from_the_rtx_stream", int64(viaRTX))
			mu.Unlock()
			burstMu.Lock()
			res.stat("burst_first_transmissions_dropped", int64(len(burstDone)))
			burstMu.Unlock()
			if c.Icpt {
				res.stat("runs_with_default_interceptors", 1)
			}
			if rt == nil {
				if !faulty && expect > 0 {
					res.violate("remote-track-never-appeared", fmt.Sprintf("%d packets written on a fault-free network, OnTrack never fired for track trk-main", expect))
				}
				return
			}
			if !strings.EqualFold(rt.Codec().MimeType, capab.MimeType) || rt.StreamID() != "strm-main" || rt.ID() != "trk-main" {
				res.violate("remote-track-identity-differs", fmt.Sprintf("remote track codec=%s stream=%q id=%q, sender wrote %s stream=strm-main id=trk-main", rt.Codec().MimeType, rt.StreamID(), rt.ID(), capab.MimeType))
			}
			bySeq := map[uint16]sentPkt{}
			for _, sp := range sent {
				bySeq[sp.seq] = sp
			}
			seen := map[uint16]int{}
			lastIdx := -1
			for _, g := range got {
				sp, known := bySeq[g.h.SequenceNumber]
				if !known {
					res.violate("received-packet-never-sent", fmt.Sprintf("received seq %d ssrc %d pt %d, %d payload bytes", g.h.SequenceNumber, g.h.SSRC, g.h.PayloadType, len(g.pay)))
					continue
				}
				if sp.drop {
					res.violate("short-rtx-packet-delivered", fmt.Sprintf("an RTX packet without room for the OSN was delivered as seq %d", g.h.SequenceNumber))
					continue
				}
				seen[sp.seq]++
				if seen[sp.seq] > 1 && !faulty {
					res.violate("packet-delivered-twice", fmt.Sprintf("seq %d delivered %d times on a fault-free network", sp.seq, seen[sp.seq]))
				}
				via := "primary"
				if sp.rtx {
					via = "rtx"
				}
				if !announced[fmt.Sprint(g.h.SSRC)] || g.h.SSRC != primarySSRC {
					res.violate("received-ssrc-not-the-announced-one:"+via, fmt.Sprintf("seq %d arrived with SSRC %d; the sender's description announces %v for this track (primary %d)", sp.seq, g.h.SSRC, vfSortedKeys(announced), primarySSRC))
				}
				if int(g.h.PayloadType) != sp.pt {
					cls := "received-payload-type-not-the-negotiated-one:" + via
					if sp.pt != wantPT {
						cls = "received-payload-type-not-the-primary-streams:" + via + ":after-the-primary-stream-changed-payload-type"
					}
					res.violate(cls, fmt.Sprintf("seq %d arrived with payload type %d; the primary stream used %d when it was sent (negotiated %d for %s)", sp.seq, g.h.PayloadType, sp.pt, wantPT, c.Codec))
				}
				if !bytes.Equal(g.pay, sp.pay) {
					res.violate("payload-changed:"+via, fmt.Sprintf("seq %d: %d payload bytes received, %d sent (first difference at %d)", sp.seq, len(g.pay), len(sp.pay), mdFirstDiff(g.pay, sp.pay)))
				}
				if g.h.Timestamp != sp.ts || g.h.Marker != sp.mark {
					res.violate("timestamp-or-marker-changed:"+via, fmt.Sprintf("seq %d: ts %d marker %v received, ts %d marker %v sent", sp.seq, g.h.Timestamp, g.h.Marker, sp.ts, sp.mark))
				}
				if sp.rtx {
					if len(g.h.CSRC) != len(sp.csrc) {
						res.violate("rtx-unwrap-changed-csrc-list", fmt.Sprintf("seq %d: %d CSRCs received, %d sent", sp.seq, len(g.h.CSRC), len(sp.csrc)))
					} else {
						for k := range sp.csrc {
							if g.h.CSRC[k] != sp.csrc[k] {
								res.violate("rtx-unwrap-changed-csrc-list", fmt.Sprintf("seq %d: CSRC %d differs", sp.seq, k))
							}
						}
					}
					if (sp.extP != 0) != g.h.Extension || (sp.extP != 0 && g.h.ExtensionProfile != sp.extP) {
						res.violate("rtx-unwrap-changed-header-extension", fmt.Sprintf("seq %d: extension=%v profile=%#x received, profile %#x sent", sp.seq, g.h.Extension, g.h.ExtensionProfile, sp.extP))
					}
					if int(g.h.PaddingSize) != sp.pad || g.h.Padding != (sp.pad > 0) {
						res.violate("rtx-unwrap-changed-padding", fmt.Sprintf("seq %d: padding=%v size=%d received, %d sent", sp.seq, g.h.Padding, g.h.PaddingSize, sp.pad))
					}
					res.stat("rtx_packets_unwrapped", 1)
				} else if !faulty {
					// primary-stream packets keep their order on a fault-free network
					idx := int(uint16(sp.seq - c.Seq0))
					if idx < lastIdx {
						res.violate("packets-reordered-on-fault-free-network", fmt.Sprintf("seq %d arrived after a later packet", sp.seq))
					}
					lastIdx = idx
				}
			}
			if c.Reneg > 0 && !faulty && prop == "C23" {
				// ---- the sender's description changes: another track on the same sender, renegotiated
				nid, nstream := "trk-main", "strm-other"
				if c.Reneg == 2 {
					nid, nstream = "trk-second", "strm-second"
				}
				ntrack, err := NewTrackLocalStaticRTP(capab, nid, nstream)
				if err == nil {
					err = sender.ReplaceTrack(ntrack)
				}
				off, ans := a, b
				if c.RenegB {
					off, ans = b, a
				}
				var od, ad SessionDescription
				if err == nil {
					od, err = off.pc.CreateOffer(nil)
				}
				if err == nil {
					err = off.pc.SetLocalDescription(od)
				}
				if err == nil {
					err = ans.pc.SetRemoteDescription(*off.pc.LocalDescription())
				}
				if err == nil {
					ad, err = ans.pc.CreateAnswer(nil)
				}
				if err == nil {
					err = ans.pc.SetLocalDescription(ad)
				}
				if err == nil {
					err = off.pc.SetRemoteDescription(*ans.pc.LocalDescription())
				}
				if err != nil {
					res.Verdict, res.Detail = "error", "renegotiation: "+err.Error()
					return
				}
				vfDrain(30*time.Second, a, b)
				res.stat("runs_with_replaced_track_renegotiated", 1)
				// what the sender's description says now
				wantMsid := ""
				for _, sec := range vfParseSDP(a.pc.LocalDescription().SDP).Sections {
					if m, _ := sec.Mid(); m == secMid {
						if v := vfAttrVals(sec.Attrs, "msid"); len(v) == 1 {
							wantMsid = v[0]
						}
					}
				}
				mu.Lock()
				before := len(recv["trk-main"]) + len(recv[nid])
				if nid == "trk-main" {
					before = len(recv[nid])
				}
				mu.Unlock()
				var late [][]byte
				for k := 0; k < 5; k++ {
					ts += 3000
					pay := rr.Bytes(40 + k)
					binary.BigEndian.PutUint32(pay, uint32(0xD0000000)|uint32(k))
					late = append(late, pay)
					_ = ntrack.WriteRTP(&rtp.Packet{Header: rtp.Header{Version: 2, SequenceNumber: seq, Timestamp: ts}, Payload: pay})
					seq++
					vfSettle(5 * time.Millisecond)
				}
				count := func() int {
					mu.Lock()
					defer mu.Unlock()
					if nid == "trk-main" {
						return len(recv[nid])
					}
					return len(recv["trk-main"]) + len(recv[nid])
				}
				vfWaitFor(10*time.Second, func() bool { return count() >= before+len(late) })
				vfSettle(200 * time.Millisecond)
				if wantMsid != "" && rt.StreamID()+" "+rt.ID() != wantMsid {
					res.violate("remote-track-identity-differs:after-renegotiation", fmt.Sprintf("the sender's renegotiated description says msid %q for mid %s; the remote track says stream=%q id=%q", wantMsid, secMid, rt.StreamID(), rt.ID()))
				}
				mu.Lock()
				var tail []mdRecv
				all := append(append([]mdRecv{}, recv["trk-main"]...), recv[nid]...)
				if nid == "trk-main" {
					all = append([]mdRecv{}, recv[nid]...)
				}
				mu.Unlock()
				for _, g := range all {
					if len(g.pay) >= 4 && binary.BigEndian.Uint32(g.pay)&0xF0000000 == 0xD0000000 {
						tail = append(tail, g)
					}
				}
				if len(tail) < len(late) {
					res.violate("packet-lost-on-fault-free-network:after-renegotiation", fmt.Sprintf("%d of %d packets written to the replacement track arrived", len(tail), len(late)))
				}
				for _, g := range tail {
					k := int(binary.BigEndian.Uint32(g.pay) & 0xFF)
					if k >= len(late) || !bytes.Equal(g.pay, late[k]) {
						res.violate("payload-changed:after-renegotiation", fmt.Sprintf("packet %d of the replacement track: %d bytes received", k, len(g.pay)))
					}
					if g.h.SSRC != primarySSRC || int(g.h.PayloadType) != wantPT {
						res.violate("received-ssrc-or-payload-type-changed:after-renegotiation", fmt.Sprintf("ssrc %d pt %d, want %d / %d", g.h.SSRC, g.h.PayloadType, primarySSRC, wantPT))
					}
				}
			}
			if !faulty {
				for _, sp := range sent {
					if !sp.drop && seen[sp.seq] == 0 {
						via := "primary"
						if sp.rtx {
							via = "rtx"
						}
						res.violate("packet-lost-on-fault-free-network:"+via, fmt.Sprintf("seq %d (%d payload bytes, csrc=%d ext=%#x/%d pad=%d) never arrived; %d of %d arrived", sp.seq, len(sp.pay), len(sp.csrc), sp.extP, len(sp.ext), sp.pad, len(got), expect))
						break
					}
				}
			}
		})
		res.Log = lines
		res.Sig = vfSig(lines)
		if faulty {
			res.stat("runs_faulty", 1)
		} else {
			res.stat("runs_fault_free", 1)
		}
		if res.Stats["inconclusive_not_connected"] == 0 {
			res.Nontrivial = fmt.Sprintf("%s/%v/%d/%v/%s", c.Codec, c.BOffers, c.Extra, c.WithDC, res.Sig)
		}
	}
}

func mdSameFmtp(a, b string) bool {
	set := func(x string) map[string]bool {
		m := map[string]bool{}
		for _, kv := range strings.Split(x, ";") {
			if kv = strings.ToLower(strings.TrimSpace(kv)); kv != "" {
				m[kv] = true
			}
		}
		return m
	}
	sa, sb := set(a), set(b)
	if len(sa) != len(sb) {
		return false
	}
	for k := range sa {
		if !sb[k] {
			return false
		}
	}
	return true
}

func mdFirstDiff(a, b []byte) int {
	for i := 0; i < len(a) && i < len(b); i++ {
		if a[i] != b[i] {
			return i
		}
	}
	if len(a) < len(b) {
		return len(a)
	}
	return len(b)
}

func init() {
	vfRegister(&vfProp{
		ID: "C23", Level: "exploration", ReplayClass: "decision-exact",
		Rule:        "case = codec in {Opus, VP8, VP9, H264, AV1}, either side offering, 0-2 extra tracks and an optional data channel in the bundle, 3-25 RTP packets with random payloads/markers/timestamp steps/start sequence (incl. wrap) written to a TrackLocalStaticRTP of a real connected pair; half of the runs on a fault-free constant-delay network (everything must arrive, in order), half with jitter, loss and duplication (received must be a subset, each intact); in half of the fault-free runs the sender then replaces its track (another stream id, or another track id too), the pair renegotiates with either side offering, more packets follow and the remote track's identity is read again; non-trivial = the pair connected, distinct = configuration + hash of the outcome",
		Real:        []string{"both PeerConnections with real ICE, DTLS, SRTP, default interceptors (NACK/RTX, reports, TWCC), RTPSender/RTPReceiver/TrackRemote", "vnet"},
		Stub:        []string{"network: vnet + seeded per-datagram fate", "signaling: in-process"},
		Assumptions: []string{"header extensions added by interceptors are not compared; SSRC, payload type, sequence number, timestamp, marker and payload are"},
		Shrink:      []string{"pkts"},
		Gen:         mdGenFor("C23"), Run: mdRunFor("C23"),
	})
	vfRegister(&vfProp{
		ID: "C26", Level: "exploration", ReplayClass: "decision-exact",
		Rule:        "case = a connected pair with a video track and RTX negotiated; for ~60% of 3-25 packets the simulated sender suppresses the original and writes only its RFC 4588 retransmission (RTX SSRC and payload type, own sequence numbers, OSN prefix) through the sender's SRTP stream, with 0-15 CSRCs, one-byte/two-byte/other extension profiles of 0-7 words, 0-255 padding bytes, payload 0-1000 bytes, and RTX packets too short to hold an OSN; in a third of the runs the primary stream switches to another negotiated payload type mid-stream (its retransmissions to that codec's RTX payload type); fault-free network; non-trivial = the pair connected, distinct = configuration + outcome hash",
		Real:        []string{"both PeerConnections with real ICE, DTLS, SRTP, interceptors; RTPReceiver repair-stream reader and TrackRemote.Read unwrapping", "vnet"},
		Stub:        []string{"the sender-side loss-and-retransmit element is the harness writing crafted RTX packets through the real RTPSender's SRTP write stream"},
		Assumptions: []string{"order between packets of the primary stream and unwrapped retransmissions is not compared (two streams)", "the repair channel holds 50 packets; runs send at most 25"},
		Shrink:      []string{"pkts"},
		Gen:         mdGenFor("C26"), Run: mdRunFor("C26"),
	})
}

// mdRawSRTPContext derives, from the established DTLS connection, an SRTP context with the
// transport's local keys (what DTLSTransport.startSRTP does for its own session).
func mdRawSRTPContext(t *DTLSTransport) (*srtp.Context, error) {
	t.lock.RLock()
	conn, profile := t.conn, t.srtpProtectionProfile
	t.lock.RUnlock()
	if conn == nil {
		return nil, fmt.Errorf("no DTLS connection")
	}
	st, ok := conn.ConnectionState()
	if !ok {
		return nil, fmt.Errorf("no DTLS connection state")
	}
	cfg := &srtp.Config{Profile: profile}
	if err := cfg.ExtractSessionKeysFromDTLS(&st, t.role() == DTLSRoleClient); err != nil {
		return nil, err
	}
	return srtp.CreateContext(cfg.Keys.LocalMasterKey, cfg.Keys.LocalMasterSalt, cfg.Profile)
}
