//go:build !js

package webrtc

// C24 — each local ICE candidate is reported once, then exactly one end-of-gathering.
// Engine B, focus-coop: a real PeerConnection with a real ice.Agent on the simulated network;
// every lock/atomic site in icegatherer.go is a scheduling point, so the agent's candidate
// callbacks (its notifier goroutine is adopted as a task) interleave with SetLocalDescription's
// candidate-pool flush under the seeded scheduler.

import (
	"encoding/json"
	"fmt"
	"sort"
	"strings"
	"sync"
	"testing"
	"time"

	"verifsim/simrt"
)

type c24Case struct {
	Hosts     int            `json:"hosts"` // local interfaces => host candidates
	Pool      uint8          `json:"pool"`
	HandlerAt string         `json:"handler_at"` // "early": OnICECandidate right after creation; "late": just before SetLocalDescription
	Reneg     bool           `json:"reneg"`      // after gathering completed: rollback-free second offer + SetLocalDescription
	SchedSeed uint64         `json:"sched_seed"`
	Strat     simrt.Strategy `json:"strat"`
}

func c24Gen(seed uint64, idx, total int, tier string) any {
	r := vfNewRand(seed, "c24")
	return &c24Case{Hosts: vfPick(r, []int{0, 1, 1, 2, 2, 3, 3}), Pool: uint8(r.Intn(2)), HandlerAt: vfPick(r, []string{"early", "early", "late"}),
		Reneg: r.Bool(0.3), SchedSeed: r.U64(), Strat: vfGenStrategy(r)}
}

func c24Run(t *testing.T, cj []byte, res *vfResult) {
	var c c24Case
	if err := json.Unmarshal(cj, &c); err != nil {
		res.Verdict, res.Detail = "error", err.Error()
		return
	}
	if c.Hosts < 0 {
		c.Hosts = 0
	}
	// (Hosts == 0: one interface that a filter hides from the gatherer — gathering yields no
	// candidate at all and still has to end with the one end-of-gathering notification)
	hidden := c.Hosts == 0
	if hidden {
		c.Hosts = 1
	}
	var mu sync.Mutex
	var log []string
	var gathered []string
	var trace []simrt.Step
	outcome, taskErr := "", ""
	preempts := 0
	vfBubble(t, func(t *testing.T) {
		nw, err := vfNewNetSim(1, vfNetCfg{})
		if err != nil {
			res.Verdict, res.Detail = "error", err.Error()
			return
		}
		var ips []string
		for i := 0; i < c.Hosts; i++ {
			ips = append(ips, fmt.Sprintf("10.0.1.%d", 2+i))
		}
		hn, _ := nw.addHost(ips...)
		_ = nw.Start()
		defer nw.Stop()
		s := simrt.NewSched(c.SchedSeed, c.Strat, "icegatherer.go")
		var p *vfPeer
		handler := func(cand *ICECandidate) {
			mu.Lock()
			if cand == nil {
				log = append(log, "nil")
			} else {
				log = append(log, cand.Address) // one host candidate per interface; ports are vnet-random
			}
			mu.Unlock()
		}
		s.Go("main", func() {
			var err error
			p, err = vfNewPeer("A", hn, func(se *SettingEngine, me *MediaEngine, cfg *Configuration) {
				cfg.ICECandidatePoolSize = c.Pool
				if hidden {
					se.SetInterfaceFilter(func(string) bool { return false })
				}
			})
			if err != nil {
				taskErr = "NewPeerConnection: " + err.Error()
				return
			}
			if c.HandlerAt != "late" {
				p.pc.OnICECandidate(handler)
			}
			if _, err = p.pc.CreateDataChannel("d", nil); err != nil {
				taskErr = "CreateDataChannel: " + err.Error()
				return
			}
			offer, err := p.pc.CreateOffer(nil)
			if err != nil {
				taskErr = "CreateOffer: " + err.Error()
				return
			}
			if c.HandlerAt == "late" {
				p.pc.OnICECandidate(handler)
			}
			if err = p.pc.SetLocalDescription(offer); err != nil {
				taskErr = "SetLocalDescription: " + err.Error()
				return
			}
		})
		outcome = s.Run(20000, 20*time.Millisecond, 20)
		// let late callbacks (still under the scheduler) finish
		for i := 0; i < 50 && p != nil && p.pc.ICEGatheringState() != ICEGatheringStateComplete; i++ {
			if s.Run(2000, 20*time.Millisecond, 3) == "stuck" {
				break
			}
		}
		trace = append(trace, s.Trace...)
		preempts = s.Preempts
		vfSettle(0)
		s.StopIf(outcome == "done")
		vfSettle(100 * time.Millisecond)
		if p != nil && c.Reneg && taskErr == "" && p.pc.ICEGatheringState() == ICEGatheringStateComplete {
			// a later SetLocalDescription (same ICE generation) must not report end-of-gathering again
			// (complete the first exchange with a second peer, then renegotiate)
			hb, _ := nw.addHost("10.0.2.2")
			if b, err := vfNewPeer("B", hb); err != nil {
				taskErr = "NewPeerConnection(B): " + err.Error()
			} else {
				defer func() { _ = b.pc.Close() }()
				if err = b.pc.SetRemoteDescription(*p.pc.LocalDescription()); err != nil {
					taskErr = "B.SetRemoteDescription: " + err.Error()
				} else if ans, err := b.pc.CreateAnswer(nil); err != nil {
					taskErr = "B.CreateAnswer: " + err.Error()
				} else if err = b.pc.SetLocalDescription(ans); err != nil {
					taskErr = "B.SetLocalDescription: " + err.Error()
				} else if err = p.pc.SetRemoteDescription(*vfGatherDone(b)); err != nil {
					taskErr = "SetRemoteDescription(answer): " + err.Error()
				} else if offer2, err := p.pc.CreateOffer(nil); err != nil {
					taskErr = "CreateOffer(2): " + err.Error()
				} else if err = p.pc.SetLocalDescription(offer2); err != nil {
					taskErr = "SetLocalDescription(2): " + err.Error()
				}
			}
			vfSettle(100 * time.Millisecond)
		}
		if p != nil {
			if p.pc.ICEGatheringState() == ICEGatheringStateComplete {
				cands, err := p.pc.iceGatherer.GetLocalCandidates()
				if err == nil {
					for _, cd := range cands {
						gathered = append(gathered, cd.Address)
					}
				}
			} else {
				taskErr = "gathering did not complete: " + p.pc.ICEGatheringState().String()
			}
			_ = p.pc.Close()
		}
	})
	mu.Lock()
	defer mu.Unlock()
	lines := []string{fmt.Sprintf("hosts=%d pool=%d handler=%s reneg=%v", c.Hosts, c.Pool, c.HandlerAt, c.Reneg), "emitted " + strings.Join(log, " "), "gathered " + strings.Join(gathered, " ")}
	for _, st := range trace {
		lines = append(lines, fmt.Sprintf("%d@%s", st.Task, st.Site))
	}
	res.Log = lines
	res.Sig = vfSig(lines)
	res.Steps = len(trace)
	res.stat("preemptions", int64(preempts))
	// probe: the pool flush was scheduled between two steps of the gathering callback
	cbTask, flushTask := -1, -1
	for _, st := range trace {
		if strings.Contains(st.Site, ":Gather:") && cbTask < 0 {
			cbTask = st.Task
		}
		if strings.Contains(st.Site, ":flushCandidates:") {
			flushTask = st.Task
		}
	}
	interleaved := false
	if cbTask >= 0 && flushTask >= 0 && cbTask != flushTask {
		first, last := -1, -1
		for i, st := range trace {
			if st.Task == flushTask && strings.Contains(st.Site, ":flushCandidates:") {
				if first < 0 {
					first = i
				}
				last = i
			}
		}
		for i := first; i <= last && i >= 0; i++ {
			if trace[i].Task == cbTask {
				interleaved = true
			}
		}
	}
	if interleaved {
		res.stat("probe_callback_ran_inside_flush_window", 1)
	}
	if c.Pool > 0 {
		res.stat("runs_with_pool", 1)
	}
	if outcome == "stuck" || taskErr != "" {
		if taskErr == "" {
			taskErr = "scheduler outcome " + outcome
		}
		res.Verdict, res.Detail = "error", taskErr
		return
	}
	if preempts > 0 {
		res.Nontrivial = res.Sig
	}
	// oracle
	nils, afterNil := 0, ""
	count := map[string]int{}
	for _, l := range log {
		if l == "nil" {
			nils++
		} else {
			count[l]++
			if nils > 0 && afterNil == "" {
				afterNil = l
			}
		}
	}
	switch {
	case nils > 1:
		res.violate("end-of-gathering-reported-more-than-once", fmt.Sprintf("OnICECandidate saw: %s", strings.Join(log, " ")))
	case afterNil != "":
		res.violate("candidate-reported-after-end-of-gathering", fmt.Sprintf("OnICECandidate saw: %s", strings.Join(log, " ")))
	case nils == 0:
		res.violate("end-of-gathering-never-reported", fmt.Sprintf("gathering complete, OnICECandidate saw: %s", strings.Join(log, " ")))
	}
	sort.Strings(gathered)
	for _, g := range gathered {
		if count[g] == 0 {
			res.violate("gathered-candidate-never-reported", fmt.Sprintf("candidate %s is in GetLocalCandidates but OnICECandidate saw: %s", g, strings.Join(log, " ")))
		}
		if count[g] > 1 {
			res.violate("candidate-reported-more-than-once", fmt.Sprintf("candidate %s reported %d times: %s", g, count[g], strings.Join(log, " ")))
		}
	}
	for k := range count {
		found := false
		for _, g := range gathered {
			if g == k {
				found = true
			}
		}
		if !found {
			res.violate("reported-candidate-not-gathered", fmt.Sprintf("%s reported but not in GetLocalCandidates %v", k, gathered))
		}
	}
	vfKeepSchedule(res, &c.Strat, trace, &c)
}

func init() {
	vfRegister(&vfProp{
		ID: "C24", Level: "exploration", ReplayClass: "decision-exact", // the ice.Agent runs free between gatherer sites: ~1 in 1500 runs diverges
		Rule:        "case = one real PeerConnection with 0-3 usable local interfaces (host candidates; 0 = a filter hides every interface), candidate pool size 0 or 1, handler registered early or late; CreateOffer+SetLocalDescription run as a task while the real ice.Agent's notifier goroutine is adopted as a task at its first site; the seeded cooperative scheduler picks who runs at every lock/atomic site of icegatherer.go; non-trivial = >=1 preemption, distinct = hash of (emitted sequence, schedule)",
		Real:        []string{"PeerConnection, ICEGatherer (instrumented)", "pion/ice Agent gathering host candidates (unmodified, free-running between gatherer sites)", "vnet"},
		Stub:        []string{"network: vnet with static IPs, no remote peer"},
		Assumptions: []string{"only host/UDP4 candidates are gathered", "the handler is always registered before SetLocalDescription"},
		Shrink:      []string{"strat.script"},
		Gen:         c24Gen, Run: c24Run,
	})
}
