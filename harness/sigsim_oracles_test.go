//go:build !js

package webrtc

// Oracles over sigsim histories. Each reports only for the property the run was started for
// (r.c.Prop); every oracle is written from the property text / the RFCs on API-visible results
// and on the SDP text read with the independent line reader (vfParseSDP), never from pion's
// parsed object model.

import (
	"fmt"
	"sort"
	"strconv"
	"strings"
)

func (r *sgRun) viol(prop, class, detail string) {
	if r.c.Prop != prop {
		return
	}
	if r.invalidRemote != "" && (prop == "C06" || prop == "C07" || prop == "C08" || prop == "C09" || prop == "C10" || prop == "C12" || prop == "C16") {
		// the remote side broke the rules of renegotiation earlier in this history (see sgGenState.tainted):
		// what the peer generates afterwards is not judged
		r.res.stat("generated_descriptions_not_judged"+r.invalidRemote, 1)
		return
	}
	r.res.violate(class, detail)
}

// ---------------------------------------------------------------- C01 reference model

var sgEdges = map[string]string{
	// state|side|type -> target   (RFC 8829 §3.2 state machine; W3C 4.4.1.5 additionally lets
	// a rollback be applied through either setLocal or setRemote)
	"stable|local|offer": "have-local-offer", "stable|remote|offer": "have-remote-offer",
	"have-local-offer|remote|answer": "stable", "have-local-offer|remote|pranswer": "have-remote-pranswer",
	"have-local-offer|local|offer": "have-local-offer", "have-local-offer|local|rollback": "stable", "have-local-offer|remote|rollback": "stable",
	"have-remote-offer|local|answer": "stable", "have-remote-offer|local|pranswer": "have-local-pranswer",
	"have-remote-offer|remote|offer": "have-remote-offer", "have-remote-offer|remote|rollback": "stable", "have-remote-offer|local|rollback": "stable",
	"have-local-pranswer|local|pranswer": "have-local-pranswer", "have-local-pranswer|local|answer": "stable", "have-local-pranswer|local|rollback": "stable",
	"have-remote-pranswer|remote|pranswer": "have-remote-pranswer", "have-remote-pranswer|remote|answer": "stable", "have-remote-pranswer|remote|rollback": "stable",
}

type sgModel struct {
	state          string
	pl, cl, pr, cr string
	lastStableCL   string
	lastStableCR   string
}

func sgOracles(r *sgRun) {
	for pi := 0; pi < 2; pi++ {
		m := &sgModel{state: "stable", pl: "<nil>", cl: "<nil>", pr: "<nil>", cr: "<nil>", lastStableCL: "<nil>", lastStableCR: "<nil>"}
		for _, rec := range r.recs {
			if rec.Op.Peer != pi {
				continue
			}
			if rec.Kind == "setlocal" || rec.Kind == "setremote" {
				sgCheckSet(r, pi, m, rec)
			}
			sgCheckSlots(r, pi, rec)
		}
		sgCheckNegotiationNeeded(r, pi)
	}
	// non-trivial: number of distinct signaling states visited
	states := map[string]bool{}
	for _, rec := range r.recs {
		states[rec.Post.State] = true
	}
	if len(states) >= 3 || (r.c.Prop != "C01" && r.c.Prop != "C02" && r.c.Prop != "C03" && len(r.recs) >= 3) {
		var key []string
		for _, rec := range r.recs {
			key = append(key, fmt.Sprintf("%d%s/%s/%s/%v>%s", rec.Op.Peer, rec.Op.Kind, rec.Type, rec.Tamper, rec.Err == "", rec.Post.State))
		}
		r.res.Nontrivial = vfSig(key)
	}
}

func sgCheckSet(r *sgRun, pi int, m *sgModel, rec *sgRec) {
	key := rec.Pre.State + "|" + rec.Side + "|" + rec.Type
	target, isEdge := sgEdges[key]
	who := fmt.Sprintf("peer %d op %d (%s %s in %s, tamper=%q)", pi, rec.Idx, rec.Kind, rec.Type, rec.Pre.State, rec.Tamper)
	ok := rec.Err == ""
	// ---- C03: a rejected call changes nothing
	if !ok {
		if rec.Pre.State != rec.Post.State || rec.Pre.PL != rec.Post.PL || rec.Pre.CL != rec.Post.CL || rec.Pre.PR != rec.Post.PR || rec.Pre.CR != rec.Post.CR {
			cls := "state-changed-by-rejected-call:" + rec.Kind + ":" + sgErrClass(rec)
			r.viol("C03", cls, fmt.Sprintf("%s returned %q but state %s -> %s, pendingLocal %s -> %s, currentLocal %s -> %s, pendingRemote %s -> %s, currentRemote %s -> %s",
				who, rec.Err, rec.Pre.State, rec.Post.State, sgShort(rec.Pre.PL), sgShort(rec.Post.PL), sgShort(rec.Pre.CL), sgShort(rec.Post.CL), sgShort(rec.Pre.PR), sgShort(rec.Post.PR), sgShort(rec.Pre.CR), sgShort(rec.Post.CR)))
		} else if rec.Post.SigEvents != rec.Pre.SigEvents {
			r.viol("C03", "signaling-state-event-from-rejected-call:"+rec.Kind+":"+sgErrClass(rec), fmt.Sprintf("%s returned %q and %d signaling-state-change event(s) fired", who, rec.Err, rec.Post.SigEvents-rec.Pre.SigEvents))
		}
	}
	// ---- C02: rollback
	if rec.Type == "rollback" {
		sideMatches := (rec.Side == "local" && (rec.Pre.State == "have-local-offer" || rec.Pre.State == "have-local-pranswer")) ||
			(rec.Side == "remote" && (rec.Pre.State == "have-remote-offer" || rec.Pre.State == "have-remote-pranswer"))
		sdpNote := "with-sdp"
		if rec.EmptySDP {
			sdpNote = "without-sdp"
		}
		changed := rec.Pre.State != rec.Post.State || rec.Pre.PL != rec.Post.PL || rec.Pre.CL != rec.Post.CL || rec.Pre.PR != rec.Post.PR || rec.Pre.CR != rec.Post.CR
		if !ok && changed {
			// a rollback that was refused must not have discarded anything
			r.viol("C02", "rejected-rollback-changed-state-or-descriptions", fmt.Sprintf("%s (%s) returned %q but state %s -> %s, pendingLocal %s -> %s, pendingRemote %s -> %s, currentLocal %s -> %s, currentRemote %s -> %s",
				who, sdpNote, rec.Err, rec.Pre.State, rec.Post.State, sgShort(rec.Pre.PL), sgShort(rec.Post.PL), sgShort(rec.Pre.PR), sgShort(rec.Post.PR), sgShort(rec.Pre.CL), sgShort(rec.Post.CL), sgShort(rec.Pre.CR), sgShort(rec.Post.CR)))
		}
		switch {
		case rec.Pre.State == "stable" && ok:
			r.viol("C02", "rollback-from-stable-accepted", who+" succeeded")
		case sideMatches && !ok && !rec.Pre.Closed:
			r.viol("C02", "rollback-rejected:"+rec.Side+":"+rec.Pre.State, fmt.Sprintf("%s (%s) returned %q", who, sdpNote, rec.Err))
		case ok:
			// whichever side applied it (W3C lets either call roll back), a successful rollback ends in
			// stable, discards both pending descriptions and keeps the last stable current ones
			if rec.Post.State != "stable" || rec.Post.PL != "<nil>" || rec.Post.PR != "<nil>" {
				r.viol("C02", "rollback-did-not-restore-stable", fmt.Sprintf("%s: state %s pendingLocal %s pendingRemote %s", who, rec.Post.State, sgShort(rec.Post.PL), sgShort(rec.Post.PR)))
			}
			if rec.Post.CL != m.lastStableCL || rec.Post.CR != m.lastStableCR {
				r.viol("C02", "rollback-changed-current-descriptions", fmt.Sprintf("%s: current local %s (was %s), current remote %s (was %s)", who, sgShort(rec.Post.CL), sgShort(m.lastStableCL), sgShort(rec.Post.CR), sgShort(m.lastStableCR)))
			}
		}
	}
	// ---- C01: success only along an edge, landing on its target, with the model's slots
	if ok {
		if !isEdge {
			r.viol("C01", "call-succeeded-outside-the-state-machine:"+key, who+" succeeded but "+key+" is not an edge of the JSEP/W3C signaling state machine")
		} else if rec.Post.State != target {
			r.viol("C01", "wrong-target-state:"+key, fmt.Sprintf("%s: state is %s, the edge leads to %s", who, rec.Post.State, target))
		}
		tok := vfDescToken(rec.Desc)
		if rec.Side == "local" && rec.Type != "rollback" {
			// local getters return the applied description plus gathered candidates: token ignores candidates
			tok = rec.Post.Local
			if rec.Type == "answer" {
				tok = rec.Post.CL
			}
		}
		switch rec.Side + "|" + rec.Type {
		case "local|offer":
			m.pl = tok
		case "remote|offer":
			m.pr = tok
		case "local|pranswer":
			m.pl = tok
		case "remote|pranswer":
			m.pr = tok
		case "local|answer":
			m.cl, m.cr, m.pl, m.pr = tok, m.pr, "<nil>", "<nil>"
		case "remote|answer":
			m.cr, m.cl, m.pl, m.pr = tok, m.pl, "<nil>", "<nil>"
		default: // rollback
			m.pl, m.pr = "<nil>", "<nil>"
		}
		if isEdge {
			m.state = target
		} else {
			m.state = rec.Post.State
		}
		// the applied description must be what the getters now report (identity by type + o= + skeleton)
		if rec.Side == "remote" && rec.Type != "rollback" {
			want := vfDescToken(rec.Desc)
			got := rec.Post.PR
			if rec.Type == "answer" {
				got = rec.Post.CR
			}
			if got != want {
				r.viol("C01", "remote-description-slot-differs", fmt.Sprintf("%s: getter reports %s, applied %s", who, sgShort(got), sgShort(want)))
			}
		}
		if rec.Side == "local" && rec.Type != "rollback" && (!rec.EmptySDP || rec.Implied != nil) {
			want := sgTokenNoCand(rec.Desc)
			if rec.EmptySDP {
				want = sgTokenNoCand(rec.Implied)
			}
			got := rec.Post.PL
			if rec.Type == "answer" {
				got = rec.Post.CL
			}
			if sgTokenStrip(got) != want {
				r.viol("C01", "local-description-slot-differs", fmt.Sprintf("%s: getter reports %s, applied %s", who, sgShort(got), sgShort(want)))
			}
		}
		if rec.Post.PL != m.pl || rec.Post.PR != m.pr || rec.Post.CL != m.cl || rec.Post.CR != m.cr {
			r.viol("C01", "description-slots-differ-from-model:"+rec.Side+":"+rec.Type, fmt.Sprintf("%s: pendingLocal %s (model %s), currentLocal %s (model %s), pendingRemote %s (model %s), currentRemote %s (model %s)",
				who, sgShort(rec.Post.PL), sgShort(m.pl), sgShort(rec.Post.CL), sgShort(m.cl), sgShort(rec.Post.PR), sgShort(m.pr), sgShort(rec.Post.CR), sgShort(m.cr)))
			// resynchronise so that one defect is reported once
			m.pl, m.pr, m.cl, m.cr = rec.Post.PL, rec.Post.PR, rec.Post.CL, rec.Post.CR
		}
	} else {
		// keep the model in step with reality after a (C03-reported) state change
		m.state, m.pl, m.pr, m.cl, m.cr = rec.Post.State, rec.Post.PL, rec.Post.PR, rec.Post.CL, rec.Post.CR
	}
	if rec.Post.State == "stable" {
		m.lastStableCL, m.lastStableCR = rec.Post.CL, rec.Post.CR
	}
}

// sgCheckSlots: getters' pending-else-current rule and "stable => no pending".
func sgCheckSlots(r *sgRun, pi int, rec *sgRec) {
	s := rec.Post
	if s.Closed {
		return
	}
	who := fmt.Sprintf("peer %d after op %d (%s)", pi, rec.Idx, rec.Op.Kind)
	wantL, wantR := s.CL, s.CR
	if s.PL != "<nil>" {
		wantL = s.PL
	}
	if s.PR != "<nil>" {
		wantR = s.PR
	}
	if s.Local != wantL || s.Remote != wantR {
		r.viol("C01", "getter-not-pending-else-current", fmt.Sprintf("%s: LocalDescription %s want %s; RemoteDescription %s want %s", who, sgShort(s.Local), sgShort(wantL), sgShort(s.Remote), sgShort(wantR)))
	}
	if s.State == "stable" && (s.PL != "<nil>" || s.PR != "<nil>") {
		r.viol("C01", "pending-description-in-stable", fmt.Sprintf("%s: stable with pendingLocal %s pendingRemote %s", who, sgShort(s.PL), sgShort(s.PR)))
	}
}

func sgShort(tok string) string {
	if len(tok) > 70 {
		return tok[:70] + "…"
	}
	return tok
}

func sgTokenNoCand(d *SessionDescription) string { return sgTokenStrip(vfDescToken(d)) }

// sgTokenStrip removes the port from the skeleton (pion rewrites 9 -> gathered port? no: ports stay
// 9, but rejected sections keep 0); kept as identity for now.
func sgTokenStrip(t string) string { return t }

// sgErrClass names a C03 violation by where the call failed, not by the input that made it fail:
// "the transition was committed, then a later validation step returned an error" is one defect
// whatever the description lacked.
func sgErrClass(rec *sgRec) string {
	target, isEdge := sgEdges[rec.Pre.State+"|"+rec.Side+"|"+rec.Type]
	if isEdge && rec.Post.State == target && rec.Pre.State != rec.Post.State {
		return "failed-after-the-transition-was-committed:" + sgErrCause(rec.Err)
	}
	if isEdge && rec.Post.State == target {
		return "failed-after-the-description-was-stored"
	}
	return "other:" + sgFirstWords(rec.Err)
}

func sgFirstWords(e string) string {
	f := strings.Fields(e)
	if len(f) > 6 {
		f = f[:6]
	}
	out := strings.Join(f, "-")
	var b strings.Builder
	for _, ch := range out {
		if (ch >= 'a' && ch <= 'z') || (ch >= 'A' && ch <= 'Z') || ch == '-' {
			b.WriteRune(ch)
		}
	}
	return b.String()
}

// ---------------------------------------------------------------- C04 negotiationneeded

func sgCheckNegotiationNeeded(r *sgRun, pi int) {
	ps := r.peers[pi]
	var fires []string
	ps.p.snapshot(func() { fires = append(fires, ps.p.negNeeded...) })
	for i, st := range fires {
		if st != "stable" {
			r.viol("C04", "negotiationneeded-fired-while:"+st, fmt.Sprintf("peer %d: OnNegotiationNeeded invocation #%d observed signaling state %q", pi, i, st))
		}
	}
	// epochs: a transition into stable (successful set* landing on stable) starts a new epoch
	epochStartFires := 0  // number of fires at the start of the current epoch
	stableStartFires := 0 // number of fires at the last transition into stable
	lastOfferStart := -1  // record index where the most recent exchange began
	completedAfter := -1  // the most recent completed exchange began at this record index
	for _, rec := range r.recs {
		if rec.Op.Peer != pi {
			continue
		}
		if (rec.Kind == "create-offer" || (rec.Kind == "setremote" && rec.Type == "offer")) && rec.Err == "" && rec.Pre.State == "stable" {
			lastOfferStart = rec.Idx
		}
		// (a call that returned an error after committing the transition still moved the state: C03 reports that)
		intoStable := (rec.Kind == "setlocal" || rec.Kind == "setremote") && rec.Post.State == "stable" && rec.Pre.State != "stable"
		if intoStable {
			n := rec.Post.NegFires - rec.Pre.NegFires
			// fires counted inside this record happened after the transition: they belong to the new epoch
			if rec.Pre.NegFires-epochStartFires > 1 {
				r.viol("C04", "negotiationneeded-fired-twice-without-completed-exchange", fmt.Sprintf("peer %d: %d invocations between two transitions into stable (before op %d)", pi, rec.Pre.NegFires-epochStartFires, rec.Idx))
			}
			epochStartFires = rec.Pre.NegFires
			stableStartFires = rec.Pre.NegFires
			completedAfter = lastOfferStart
			_ = n
		}
		// W3C 4.7.3: the flag is also cleared when the check finds that negotiation is no longer
		// needed, and the next change then fires again. Operations that can take a pending need
		// away (the sender or the transceiver goes away again, the direction changes back) start a
		// new epoch, whether or not they did: the rule errs on the quiet side here.
		if rec.Kind == "media" && (rec.Op.Kind == "removetrack" || rec.Op.Kind == "stop" || rec.Op.Kind == "replacetrack") && rec.Err == "" {
			if rec.Pre.NegFires-epochStartFires > 1 {
				r.viol("C04", "negotiationneeded-fired-twice-without-completed-exchange", fmt.Sprintf("peer %d: %d invocations since the last transition into stable (before op %d)", pi, rec.Pre.NegFires-epochStartFires, rec.Idx))
			}
			epochStartFires = rec.Pre.NegFires
		}
		// (b) a pending change must have produced an invocation once stable and drained
		if rec.Undrained {
			r.res.stat("c04_points_skipped_queue_not_drained", 1)
		}
		if rec.Post.State == "stable" && !rec.Post.Closed && !rec.Undrained {
			uncovered := ""
			for _, ch := range ps.changes {
				if ch.at <= rec.Idx && ch.at >= completedAfter {
					uncovered = fmt.Sprintf("%s at op %d", ch.what, ch.at)
				}
			}
			if uncovered != "" && rec.Post.NegFires-stableStartFires < 1 {
				r.viol("C04", "negotiationneeded-not-fired-after-change", fmt.Sprintf("peer %d: %s is not covered by a completed exchange, connection stable and drained after op %d, but no OnNegotiationNeeded invocation since the last transition into stable", pi, uncovered, rec.Idx))
			}
		}
	}
	if len(fires)-epochStartFires > 1 {
		r.viol("C04", "negotiationneeded-fired-twice-without-completed-exchange", fmt.Sprintf("peer %d: %d invocations after the last transition into stable", pi, len(fires)-epochStartFires))
	}
	if len(fires) > 0 {
		r.res.stat("negotiationneeded_fires", int64(len(fires)))
	}
}

// ---------------------------------------------------------------- generated descriptions

type sgGenState struct {
	sessID        string
	lastVer       uint64
	haveVer       bool
	midIndex      map[string]int
	idxMid        map[int]string
	seenMids      map[string]bool
	trMid         map[*RTPTransceiver]string
	sawRemoteApp  bool
	answerDropped bool
	remotePTs     map[string]bool // kind|pt|codec seen in an earlier applied remote description
	pendingPTs    []string
	unapplied     map[string]string // mid -> kind: handed to a local transceiver by CreateOffer, never part of an applied local description
	collided      map[string]bool   // a remote description was applied that uses such a mid
	midKind       map[string]string // kind of the section a mid named in applied descriptions
	// the description being looked at was generated by CreateOffer in have-local-offer (the layout
	// is then rebuilt without regard to the pending offer)
	offerWhilePending bool
	tainted           string          // non-empty: why later descriptions of this peer are beyond the clean preconditions
	newMids           map[string]bool // mids the most recent applied offer introduced
	newByOffer        map[string]bool // mids whose transceiver was created by the most recent SetRemoteDescription(offer)
}

func sgStateOf(ps *sgPeerState) *sgGenState {
	if ps.gen == nil {
		ps.gen = &sgGenState{midIndex: map[string]int{}, idxMid: map[int]string{}, seenMids: map[string]bool{}, trMid: map[*RTPTransceiver]string{}}
	}
	return ps.gen
}

// sgMonitorGenerated runs after every recorded operation.
func sgMonitorGenerated(r *sgRun, ps *sgPeerState, rec *sgRec) {
	g := sgStateOf(ps)
	pi := rec.Op.Peer
	pc := ps.p.pc
	unified := ps.cfg.Semantics == 0
	created := (rec.Kind == "create-offer" || rec.Kind == "create-answer") && rec.Err == "" && rec.Desc != nil
	applied := rec.Kind == "setremote" && rec.Err == "" && rec.Desc != nil && rec.Type != "rollback"
	who := fmt.Sprintf("peer %d op %d (%s)", pi, rec.Idx, rec.Op.Kind)
	g.offerWhilePending = rec.Kind == "create-offer" && rec.Pre.State == "have-local-offer"

	if rec.Kind == "setremote" && rec.Type == "offer" {
		g.newByOffer = map[string]bool{}
		for _, t := range pc.GetTransceivers() {
			if _, seen := g.trMid[t]; !seen && t.Mid() != "" {
				g.newByOffer[t.Mid()] = true
			}
		}
	}
	// --- C09 part 1: a transceiver's mid never changes
	preAssigned := map[*RTPTransceiver]bool{}
	for _, t := range pc.GetTransceivers() {
		mid := t.Mid()
		old, seen := g.trMid[t]
		if seen && old != "" && mid != old {
			r.viol("C09", "transceiver-mid-changed", fmt.Sprintf("%s: transceiver mid %q became %q", who, old, mid))
		}
		if (!seen || old == "") && mid != "" {
			preAssigned[t] = true
			for ot, om := range g.trMid {
				if ot != t && om == mid {
					r.viol("C09", "mid-names-two-transceivers", fmt.Sprintf("%s: mid %q now names a second transceiver", who, mid))
				}
			}
			if rec.Kind == "create-offer" && g.seenMids[mid] && unified {
				r.viol("C09", "new-transceiver-reuses-earlier-mid"+sgOrigin(g, mid), fmt.Sprintf("%s: CreateOffer gave a new transceiver mid %q, which appeared in an earlier description", who, mid))
			}
		}
		g.trMid[t] = mid
	}
	if rec.Kind == "setlocal" && rec.Err == "" && rec.Type != "rollback" && unified {
		if ld := pc.LocalDescription(); ld != nil {
			lp := vfParseSDP(ld.SDP)
			sgRecordPositions(g, lp)
			if g.midKind == nil {
				g.collided, g.midKind = map[string]bool{}, map[string]string{}
			}
			for _, sec := range lp.Sections {
				if m, ok := sec.Mid(); ok {
					if _, seen := g.midKind[m]; !seen {
						g.midKind[m] = sec.Kind
					}
				}
			}
		}
		if ld := pc.LocalDescription(); ld != nil {
			for _, sec := range vfParseSDP(ld.SDP).Sections {
				if m, ok := sec.Mid(); ok && g.unapplied[m] == sec.Kind {
					delete(g.unapplied, m) // this assignment is now part of an applied local description
				}
			}
		}
	}
	// a call that returned an error and nevertheless changed the signaling state (the open C03
	// finding): what this peer generates afterwards starts from a state no accepted call produced
	if (rec.Kind == "setlocal" || rec.Kind == "setremote") && rec.Err != "" && rec.Pre.State != rec.Post.State && g.tainted == "" {
		g.tainted = ":after-a-rejected-description-was-committed"
	}
	if !created && !applied {
		return
	}
	p := vfParseSDP(rec.Desc.SDP)
	if rec.Kind == "create-offer" {
		if g.unapplied == nil {
			g.unapplied = map[string]string{}
		}
		for _, s := range p.Sections {
			if m, ok := s.Mid(); ok && !g.seenMids[m] && s.Kind != "application" {
				if _, have := g.unapplied[m]; !have {
					g.unapplied[m] = s.Kind // mid handed out by a CreateOffer whose result has not been set (yet)
				}
			}
		}
	}
	if applied && (rec.Type == "answer" || rec.Type == "pranswer") && r.invalidRemote == "" {
		// an answer mirrors the offer it answers; one that does not (a description that was meant for
		// somebody else) is applied by pion without complaint, but nothing sensible follows from it
		if ld := pc.LocalDescription(); ld != nil {
			lo := vfParseSDP(ld.SDP)
			same := len(lo.Sections) == len(p0(rec).Sections)
			for i := 0; same && i < len(lo.Sections); i++ {
				am, _ := p0(rec).Sections[i].Mid()
				om, _ := lo.Sections[i].Mid()
				if am != om || lo.Sections[i].Kind != p0(rec).Sections[i].Kind {
					same = false
				}
			}
			if !same {
				r.invalidRemote = ":remote-answer-does-not-mirror-the-offer"
			}
		}
	}
	if applied {
		if g.collided == nil {
			g.collided, g.midKind = map[string]bool{}, map[string]string{}
		}
		for _, s := range p.Sections {
			m, ok := s.Mid()
			if !ok {
				continue
			}
			if _, prov := g.unapplied[m]; prov {
				g.collided[m] = true // the remote uses a mid pion gave away in an offer that was never applied
			}
			if k, seen := g.midKind[m]; seen && k != s.Kind && g.tainted == "" {
				// not a legal renegotiation: a mid keeps its media kind for the life of the session
				g.tainted = ":remote-changed-the-kind-of-a-mid"
				r.invalidRemote = g.tainted
			}
			g.midKind[m] = s.Kind
		}
		if g.remotePTs == nil {
			g.remotePTs = map[string]bool{}
		}
		// payload types of the description applied before this one become "earlier"
		for _, k := range g.pendingPTs {
			g.remotePTs[k] = true
		}
		g.pendingPTs = nil
		for _, s := range p.Sections {
			if s.Kind == "application" {
				g.sawRemoteApp = true
			}
			for pt, codec := range sgRtpmaps(s) {
				g.pendingPTs = append(g.pendingPTs, s.Kind+"|"+pt+"|"+codec)
			}
		}
	}
	// --- C09 part 2: section positions
	if unified && !rec.Foreign || (unified && applied) {
		for i, s := range p.Sections {
			mid, ok := s.Mid()
			if !ok {
				continue
			}
			if old, seen := g.midIndex[mid]; seen && old != i && created {
				cls := "m-section-moved"
				if rec.Kind == "create-answer" {
					if rd := pc.RemoteDescription(); rd != nil && len(vfParseSDP(rd.SDP).Sections) > len(p.Sections) {
						cls = "m-section-moved:answer-dropped-offered-sections" // the C07 defect seen through C09
					}
				}
				r.viol("C09", cls+sgOrigin(g, mid), fmt.Sprintf("%s: mid %q is section %d, it was section %d in an earlier description", who, mid, i, old))
			}
			if om, seen := g.idxMid[i]; seen && om != mid && created {
				cls := "m-section-position-renamed"
				if g.answerDropped {
					cls = "m-section-position-renamed:after-an-answer-dropped-offered-sections" // the C07 defect seen through C09
				}
				r.viol("C09", cls+sgOrigin(g, mid, om), fmt.Sprintf("%s: section %d has mid %q, it had mid %q in an earlier description", who, i, mid, om))
			}
		}
		// positions are recorded from descriptions that were applied (local or remote), a created
		// description that is never set is not "an earlier local description"
		if applied {
			if rec.Type == "offer" {
				g.newMids = map[string]bool{}
				for _, s := range p.Sections {
					if m, ok := s.Mid(); ok && !g.seenMids[m] {
						g.newMids[m] = true // a section this offer introduces
					}
				}
			}
			sgRecordPositions(g, p)
		}
	}
	if !created {
		return
	}
	if rec.Kind == "create-answer" {
		if rd := pc.RemoteDescription(); rd != nil && len(vfParseSDP(rd.SDP).Sections) > len(p.Sections) {
			g.answerDropped = true
		}
	}
	r.res.stat("descriptions_generated", 1)
	r.lines = append(r.lines, "    generated "+rec.Type+": "+sgSummary(p))
	if rec.Kind == "create-answer" {
		if rd := pc.RemoteDescription(); rd != nil {
			r.lines = append(r.lines, "    answering "+rd.Type.String()+": "+sgSummary(vfParseSDP(rd.SDP)))
		}
	}
	// --- C06
	if p.Bad != "" {
		r.viol("C06", "generated-sdp-malformed", who+": "+p.Bad)
	}
	mids := map[string]int{}
	var accepted []string
	for _, s := range p.Sections {
		mid, ok := s.Mid()
		if !ok {
			r.viol("C06", "m-section-without-mid", fmt.Sprintf("%s: a %s m-section (port %d) has no a=mid", who, s.Kind, s.Port))
			continue
		}
		mids[mid]++
		if s.Port != 0 {
			accepted = append(accepted, mid)
		}
	}
	for m, n := range mids {
		if n > 1 {
			cls := "duplicate-mid"
			if m == "data" && ps.cfg.Semantics != 0 {
				cls = "duplicate-mid:plan-b-data-section-vs-remote-mid-named-data"
			}
			r.viol("C06", cls+sgOrigin(g, m), fmt.Sprintf("%s: mid %q is used by %d m-sections", who, m, n))
		}
	}
	var bundle []string
	nb := 0
	for _, v := range vfAttrVals(p.Attrs, "group") {
		if strings.HasPrefix(v, "BUNDLE") {
			nb++
			bundle = strings.Fields(v)[1:]
		}
	}
	if len(p.Sections) > 0 && ps.cfg.Semantics == 0 {
		sa, sb := append([]string{}, accepted...), append([]string{}, bundle...)
		sort.Strings(sa)
		sort.Strings(sb)
		if nb != 1 && len(accepted) > 0 {
			r.viol("C06", "bundle-group-count", fmt.Sprintf("%s: %d BUNDLE groups", who, nb))
		} else if strings.Join(sa, " ") != strings.Join(sb, " ") {
			r.viol("C06", "bundle-group-differs-from-accepted-mids", fmt.Sprintf("%s: BUNDLE lists %v, accepted (non-zero-port) sections have mids %v", who, bundle, accepted))
		}
	}
	sessFP := vfAttrHas(p.Attrs, "fingerprint")
	sessUfrag, sessPwd := vfAttrHas(p.Attrs, "ice-ufrag"), vfAttrHas(p.Attrs, "ice-pwd")
	for _, s := range p.Sections {
		if s.Port == 0 {
			continue
		}
		mid, _ := s.Mid()
		if !(vfAttrHas(s.Attrs, "ice-ufrag") || sessUfrag) || !(vfAttrHas(s.Attrs, "ice-pwd") || sessPwd) {
			r.viol("C06", "accepted-section-without-ice-credentials", fmt.Sprintf("%s: section mid %q", who, mid))
		}
		nd := len(s.Direction())
		if (s.Kind == "audio" || s.Kind == "video") && nd != 1 || nd > 1 {
			r.viol("C06", "accepted-section-direction-attribute-count", fmt.Sprintf("%s: section mid %q has %d direction attributes", who, mid, nd))
		}
		if !vfAttrHas(s.Attrs, "setup") && !vfAttrHas(p.Attrs, "setup") {
			r.viol("C06", "accepted-section-without-setup", fmt.Sprintf("%s: section mid %q", who, mid))
		}
		if !vfAttrHas(s.Attrs, "fingerprint") && !sessFP {
			r.viol("C06", "accepted-section-without-fingerprint", fmt.Sprintf("%s: section mid %q", who, mid))
		}
	}
	// --- C10
	for _, s := range p.Sections {
		if s.Kind != "audio" && s.Kind != "video" {
			continue
		}
		mid, _ := s.Mid()
		pts := map[string]int{}
		for _, f := range s.Fmts {
			pts[f]++
			if pts[f] > 1 {
				r.viol("C10", "payload-type-listed-twice", fmt.Sprintf("%s: section %q lists payload type %s twice", who, mid, f))
			}
		}
		for _, k := range []string{"rtpmap", "fmtp", "rtcp-fb"} {
			for _, v := range vfAttrVals(s.Attrs, k) {
				pt := strings.Fields(v + " ")[0]
				if pts[pt] == 0 && pt != "*" && s.Port != 0 {
					r.viol("C10", k+"-for-unlisted-payload-type", fmt.Sprintf("%s: section %q has a=%s:%s but %s is not on the m= line %v", who, mid, k, v, pt, s.Fmts))
				}
			}
		}
		for _, v := range vfAttrVals(s.Attrs, "fmtp") {
			f := strings.SplitN(v, " ", 2)
			if len(f) == 2 {
				for _, kv := range strings.Split(f[1], ";") {
					kv = strings.TrimSpace(kv)
					if strings.HasPrefix(kv, "apt=") && pts[strings.TrimPrefix(kv, "apt=")] == 0 && s.Port != 0 {
						r.viol("C10", "rtx-apt-names-unlisted-payload-type", fmt.Sprintf("%s: section %q: a=fmtp:%s, %s is not listed in %v", who, mid, v, strings.TrimPrefix(kv, "apt="), s.Fmts))
					}
				}
			}
		}
		ids, uris := map[string]int{}, map[string]int{}
		for _, v := range vfAttrVals(s.Attrs, "extmap") {
			f := strings.Fields(v)
			if len(f) < 2 {
				continue
			}
			id := f[0]
			if j := strings.IndexByte(id, '/'); j >= 0 {
				id = id[:j]
			}
			n, err := strconv.Atoi(id)
			if err != nil || n < 1 || n > 14 {
				r.viol("C10", "extmap-id-outside-one-byte-range", fmt.Sprintf("%s: section %q a=extmap:%s", who, mid, v))
			}
			ids[id]++
			uris[f[1]]++
			if ids[id] > 1 {
				r.viol("C10", "extmap-id-used-twice", fmt.Sprintf("%s: section %q extmap id %s used twice", who, mid, id))
			}
			if uris[f[1]] > 1 {
				r.viol("C10", "extmap-uri-listed-twice", fmt.Sprintf("%s: section %q extension %s listed twice", who, mid, f[1]))
			}
		}
	}
	// --- C11 (sequential part)
	if g.sessID != "" && p.SessID != g.sessID {
		r.viol("C11", "session-id-changed", fmt.Sprintf("%s: o= session id %s, earlier descriptions carried %s", who, p.SessID, g.sessID))
	}
	if g.haveVer && p.SessVer <= g.lastVer {
		r.viol("C11", "session-version-not-increasing", fmt.Sprintf("%s: o= session version %d after %d", who, p.SessVer, g.lastVer))
	}
	g.sessID, g.lastVer, g.haveVer = p.SessID, p.SessVer, true

	if rec.Kind == "create-answer" {
		// the offer being answered is whatever the connection holds as its remote description
		if rd := pc.RemoteDescription(); rd != nil && rd.Type == SDPTypeOffer {
			sgCheckAnswer(r, ps, rec, p, vfParseSDP(rd.SDP), who)
		}
	}
	if rec.Kind == "create-offer" && unified {
		sgCheckOffer(r, ps, rec, p, g, who)
	}
}

func sgRecordPositions(g *sgGenState, p *vfSDP) {
	for i, s := range p.Sections {
		if mid, ok := s.Mid(); ok {
			if _, seen := g.midIndex[mid]; !seen {
				g.midIndex[mid] = i
			}
			if _, seen := g.idxMid[i]; !seen {
				g.idxMid[i] = mid
			}
			g.seenMids[mid] = true
		}
	}
}

// sgSummary renders the m-line skeleton of a description for histories and reports.
func sgSummary(p *vfSDP) string {
	var out []string
	for _, s := range p.Sections {
		m, _ := s.Mid()
		rm := sgRtpmaps(s)
		var cs []string
		for _, f := range s.Fmts {
			cs = append(cs, f+"="+rm[f])
		}
		out = append(out, fmt.Sprintf("[%s mid=%s port=%d %s %s]", s.Kind, m, s.Port, strings.Join(s.Direction(), "+"), strings.Join(cs, ",")))
	}
	return fmt.Sprintf("o=%s/%d %s", p.SessID, p.SessVer, strings.Join(out, " "))
}

func sgCodecKey(rtpmap string) string {
	f := strings.Split(strings.ToLower(strings.TrimSpace(rtpmap)), "/")
	if len(f) == 2 {
		f = append(f, "1")
	}
	if len(f) == 3 && f[2] == "" {
		f[2] = "1"
	}
	return strings.Join(f, "/")
}

func sgRtpmaps(s *vfSDPSection) map[string]string {
	out := map[string]string{}
	for _, v := range vfAttrVals(s.Attrs, "rtpmap") {
		f := strings.SplitN(v, " ", 2)
		if len(f) == 2 {
			out[f[0]] = sgCodecKey(f[1])
		}
	}
	return out
}

var sgStaticPT = map[string]string{"0": "pcmu/8000/1", "8": "pcma/8000/1", "9": "g722/8000/1"}

// sgCheckAnswer: C07, C08, C16 on a created answer against the applied remote offer.
func sgCheckAnswer(r *sgRun, ps *sgPeerState, rec *sgRec, ans, off *vfSDP, who string) {
	g := sgStateOf(ps)
	unified := ps.cfg.Semantics == 0
	if unified {
		if len(ans.Sections) != len(off.Sections) {
			var ak, ok []string
			for _, s := range ans.Sections {
				m, _ := s.Mid()
				ak = append(ak, s.Kind+":"+m)
			}
			for _, s := range off.Sections {
				m, _ := s.Mid()
				ok = append(ok, s.Kind+":"+m)
			}
			// which offered sections (by mid) are absent from the answer, and what is special about them
			inAns := map[string]bool{}
			for _, s := range ans.Sections {
				m, _ := s.Mid()
				inAns[m] = true
			}
			reasons := map[string]bool{}
			for _, s := range off.Sections {
				m, _ := s.Mid()
				if inAns[m] {
					continue
				}
				switch {
				case s.Kind != "audio" && s.Kind != "video" && s.Kind != "application":
					reasons["unknown-media-kind"] = true
				case len(s.Direction()) == 0:
					reasons["no-direction-attribute"] = true
				default:
					reasons["other"] = true
				}
			}
			missing := strings.Join(vfSortedKeys(reasons), "+")
			r.viol("C07", "answer-dropped-offered-section:"+missing, fmt.Sprintf("%s: offer has %d m-sections %v, answer has %d %v", who, len(off.Sections), ok, len(ans.Sections), ak))
			return
		}
	}
	n := len(ans.Sections)
	if len(off.Sections) < n {
		n = len(off.Sections)
	}
	for i := 0; i < n; i++ {
		a, o := ans.Sections[i], off.Sections[i]
		am, aok := a.Mid()
		om, _ := o.Mid()
		if unified {
			if a.Kind != o.Kind {
				// (CreateOffer assigned this mid to a local transceiver, the offer was never set, and
				// the remote offer uses the same mid for a section of another kind: known origin)
				cls := "answer-section-kind-differs" + sgOrigin(g, om)
				if g.tainted == ":remote-changed-the-kind-of-a-mid" {
					r.res.stat("answers_to_offers_that_change_the_kind_of_a_mid_not_judged", 1)
					continue
				}
				r.viol("C07", cls, fmt.Sprintf("%s: section %d is %s in the offer, %s in the answer", who, i, o.Kind, a.Kind))
				continue
			}
			if !aok || am != om {
				rej := "accepted"
				if a.Port == 0 {
					rej = "rejected"
				}
				r.viol("C07", "answer-section-mid-differs:"+rej+"-section", fmt.Sprintf("%s: section %d (%s, port %d) has mid %q (present=%v), the offer's section has mid %q", who, i, a.Kind, a.Port, am, aok, om))
			}
		}
		if a.Port == 0 || (a.Kind != "audio" && a.Kind != "video") {
			continue
		}
		// C08 directions
		od, ad := "sendrecv", ""
		if d := o.Direction(); len(d) > 0 {
			od = d[0]
		}
		if d := a.Direction(); len(d) > 0 {
			ad = d[0]
		}
		legal := map[string][]string{"sendrecv": {"sendrecv", "sendonly", "recvonly", "inactive"}, "sendonly": {"recvonly", "inactive"}, "recvonly": {"sendonly", "inactive"}, "inactive": {"inactive"}}
		okDir := false
		for _, l := range legal[od] {
			if l == ad {
				okDir = true
			}
		}
		if !okDir && ad != "" && unified {
			hist := ":section-re-offered" // the mid was negotiated before; SetRemoteDescription found the transceiver by mid
			if g.newMids[om] {
				hist = ":section-new-in-this-offer"
			}
			r.viol("C08", "illegal-answer-direction:offered-"+od+"-answered-"+ad+hist+sgOriginMid(g, om), fmt.Sprintf("%s: section %d (mid %q) offered %s, answered %s", who, i, om, od, ad))
		}
		// C16 codecs
		om2, am2 := sgRtpmaps(o), sgRtpmaps(a)
		// where the section's codec list came from: a transceiver this offer created is filled
		// from the offered section itself; an older one from the connection-wide negotiated list,
		// or from SetCodecPreferences when the application pinned payload types
		origin := ":transceiver-existed-before-this-offer"
		if g.newByOffer[om] {
			origin = ":transceiver-created-by-this-offer"
		}
		if ps.explicitPrefs {
			origin += "+setcodecpreferences-with-payload-types"
		} else if ps.anyPrefs {
			origin += "+setcodecpreferences"
		}
		listed := map[string]bool{}
		for _, f := range o.Fmts {
			listed[f] = true
		}
		for _, pt := range a.Fmts {
			if !listed[pt] {
				// one recognisable cause: the payload type (with this codec) is offered in another
				// section of the same offer — pion keeps one negotiated codec list per kind
				ptElsewhere := false
				for j, os := range off.Sections {
					if j != i && sgRtpmaps(os)[pt] == am2[pt] && am2[pt] != "" {
						ptElsewhere = true
					}
				}
				if !ptElsewhere && g.remotePTs[a.Kind+"|"+pt+"|"+am2[pt]] {
					r.viol("C16", "answer-keeps-payload-type-from-an-earlier-remote-description"+origin, fmt.Sprintf("%s: section %d (mid %q): answer lists payload type %s (%s); the offer being answered lists %v, the payload type was offered in an earlier remote description only", who, i, om, pt, am2[pt], o.Fmts))
					continue
				}
				if ptElsewhere && strings.HasPrefix(am2[pt], "rtx/") {
					// the primary of this RTX may well be offered here; the retransmission payload type is not
					primaryHere := false
					for _, v := range vfAttrVals(a.Attrs, "fmtp") {
						f := strings.SplitN(v, " ", 2)
						if len(f) == 2 && f[0] == pt && strings.HasPrefix(f[1], "apt=") && listed[strings.TrimPrefix(f[1], "apt=")] {
							primaryHere = true
						}
					}
					// does this section of the offer carry a retransmission payload type for that primary at
					// all? If it does (under its own number), the answer merely uses the number another section
					// gave it: the payload-type leak between sections reported below
					rtxOfferedHere := false
					apt := ""
					for _, v := range vfAttrVals(a.Attrs, "fmtp") {
						if f := strings.SplitN(v, " ", 2); len(f) == 2 && f[0] == pt && strings.HasPrefix(f[1], "apt=") {
							apt = f[1]
						}
					}
					// (for that primary, or for another configuration of the same codec in this section: pion
					// matches H264 levels onto one local codec)
					om2 := sgRtpmaps(o)
					primaryName := om2[strings.TrimPrefix(apt, "apt=")]
					for _, v := range vfAttrVals(o.Attrs, "fmtp") {
						if f := strings.SplitN(v, " ", 2); len(f) == 2 && apt != "" && strings.HasPrefix(f[1], "apt=") && strings.HasPrefix(om2[f[0]], "rtx/") &&
							(f[1] == apt || (primaryName != "" && om2[strings.TrimPrefix(f[1], "apt=")] == primaryName)) {
							rtxOfferedHere = true
						}
					}
					if primaryHere && !rtxOfferedHere {
						r.viol("C16", "answer-adds-rtx-the-section-did-not-offer"+origin, fmt.Sprintf("%s: section %d (mid %q): answer lists RTX payload type %s whose primary is offered here, but the offer section lists only %v", who, i, om, pt, o.Fmts))
						continue
					}
				}
				if ptElsewhere {
					r.viol("C16", "answer-uses-payload-type-offered-only-in-another-section"+origin, fmt.Sprintf("%s: section %d (mid %q): answer lists payload type %s (%s); this section of the offer lists %v, payload type %s is offered in another section only", who, i, om, pt, am2[pt], o.Fmts, pt))
					continue
				}
				r.viol("C16", "answer-lists-payload-type-not-offered"+origin, fmt.Sprintf("%s: section %d (mid %q): answer lists payload type %s (%s), offer listed %v", who, i, om, pt, am2[pt], o.Fmts))
				continue
			}
			oc, ac := om2[pt], am2[pt]
			if oc == "" {
				oc = sgStaticPT[pt]
			}
			if ac == "" {
				ac = sgStaticPT[pt]
			}
			if oc != "" && ac != "" && oc != ac && g.remotePTs[a.Kind+"|"+pt+"|"+am2[pt]] {
				// the answer's meaning of this number is what an earlier remote description gave it: the
				// per-kind negotiated list again (open C16 finding), here with a number the new offer reuses
				r.viol("C16", "answer-keeps-payload-type-mapping-from-an-earlier-remote-description"+origin, fmt.Sprintf("%s: section %d (mid %q): payload type %s is %s in the offer being answered, %s in the answer — which is what an earlier remote description called it", who, i, om, pt, oc, ac))
			} else if oc != "" && ac != "" && oc != ac {
				r.viol("C16", "answer-payload-type-maps-to-different-codec"+origin, fmt.Sprintf("%s: section %d (mid %q): payload type %s is %s in the offer, %s in the answer", who, i, om, pt, oc, ac))
			}
		}
	}
}

// sgCheckOffer: C12 on a created offer (Unified Plan).
func sgCheckOffer(r *sgRun, ps *sgPeerState, rec *sgRec, off *vfSDP, g *sgGenState, who string) {
	pc := ps.p.pc
	byMid := map[string][]*vfSDPSection{}
	hasApp := false
	for _, s := range off.Sections {
		if s.Kind == "application" {
			hasApp = true
			continue
		}
		m, _ := s.Mid()
		byMid[m] = append(byMid[m], s)
	}
	trMids := map[string]bool{}
	for _, t := range pc.GetTransceivers() {
		mid := t.Mid()
		if mid == "" {
			r.viol("C12", "transceiver-without-mid-after-offer", fmt.Sprintf("%s: a %s transceiver has no mid after CreateOffer", who, t.Kind()))
			continue
		}
		trMids[mid] = true
		secs := byMid[mid]
		if len(secs) != 1 {
			r.viol("C12", "transceiver-section-count", fmt.Sprintf("%s: transceiver mid %q (%s) has %d m-sections in the offer", who, mid, t.Kind(), len(secs)))
			continue
		}
		s := secs[0]
		if s.Kind != t.Kind().String() {
			r.viol("C12", "section-kind-differs-from-transceiver", fmt.Sprintf("%s: mid %q is a %s transceiver, the section is m=%s", who, mid, t.Kind(), s.Kind))
		}
		if s.Port == 0 {
			continue
		}
		d := s.Direction()
		if len(d) == 1 && d[0] != t.Direction().String() {
			r.viol("C12", "section-direction-differs-from-transceiver", fmt.Sprintf("%s: mid %q transceiver direction %s, section says %s", who, mid, t.Direction(), d[0]))
		}
		sender := t.Sender()
		if sender == nil {
			continue
		}
		track := sender.Track()
		if mt, modelled := ps.trackOf[sender]; modelled {
			track = mt // the last track ReplaceTrack accepted for this sender
		}
		if track == nil {
			continue
		}
		if t.Direction() != RTPTransceiverDirectionSendrecv && t.Direction() != RTPTransceiverDirectionSendonly {
			continue
		}
		wantMsid := track.StreamID() + " " + track.ID()
		found := false
		for _, v := range vfAttrVals(s.Attrs, "msid") {
			if v == wantMsid {
				found = true
			}
		}
		if !found {
			r.viol("C12", "sending-track-msid-missing", fmt.Sprintf("%s: mid %q sends track %q but the section has msid lines %v", who, mid, wantMsid, vfAttrVals(s.Attrs, "msid")))
		}
		ssrcs := map[string]bool{}
		for _, v := range vfAttrVals(s.Attrs, "ssrc") {
			ssrcs[strings.Fields(v + " ")[0]] = true
		}
		var groups []string
		groups = append(groups, vfAttrVals(s.Attrs, "ssrc-group")...)
		encs := sender.GetParameters().Encodings
		// (simulcast layers: the property speaks of the SSRCs the sender will use, so every encoding's
		// SSRC is looked for; the a=rid / a=simulcast lines are not part of it)
		for _, enc := range encs {
			if !ssrcs[fmt.Sprint(uint32(enc.SSRC))] {
				r.viol("C12", "sender-ssrc-not-announced", fmt.Sprintf("%s: mid %q sender will use SSRC %d, section announces %v", who, mid, enc.SSRC, vfSortedKeys(ssrcs)))
			}
			if enc.RTX.SSRC != 0 {
				want := fmt.Sprintf("FID %d %d", enc.SSRC, enc.RTX.SSRC)
				ok := false
				for _, gv := range groups {
					if gv == want {
						ok = true
					}
				}
				if !ok {
					r.viol("C12", "rtx-ssrc-group-missing", fmt.Sprintf("%s: mid %q sender uses RTX SSRC %d, section has ssrc-groups %v", who, mid, enc.RTX.SSRC, groups))
				}
			}
			if enc.FEC.SSRC != 0 {
				want := fmt.Sprintf("FEC-FR %d %d", enc.SSRC, enc.FEC.SSRC)
				ok := false
				for _, gv := range groups {
					if gv == want {
						ok = true
					}
				}
				if !ok {
					r.viol("C12", "fec-ssrc-group-missing", fmt.Sprintf("%s: mid %q sender uses FEC SSRC %d, section has ssrc-groups %v", who, mid, enc.FEC.SSRC, groups))
				}
			}
		}
	}
	for mid, secs := range byMid {
		if !trMids[mid] && len(secs) > 0 && secs[0].Port != 0 {
			r.viol("C12", "section-without-transceiver", fmt.Sprintf("%s: the offer has an accepted %s section with mid %q that no transceiver carries", who, secs[0].Kind, mid))
		}
	}
	wantApp := ps.dcs > 0 || ps.cfg.AlwaysDC
	if wantApp && !hasApp {
		r.viol("C12", "application-section-missing", fmt.Sprintf("%s: %d data channels created, AlwaysNegotiateDataChannels=%v, but the offer has no application section", who, ps.dcs, ps.cfg.AlwaysDC))
	}
	if !wantApp && hasApp && !g.sawRemoteApp {
		r.viol("C12", "application-section-without-data-channel", fmt.Sprintf("%s: no data channel was created and AlwaysNegotiateDataChannels is off, but the offer has an application section", who))
	}
}

// sgOrigin names a known origin of a violation that involves the given mids: a mid that pion
// handed to a local transceiver in an offer that was never applied and that the remote then used
// (the open C07 finding), or a peer whose state was changed by a rejected call (the open C03
// finding). Empty when neither applies.
func sgOrigin(g *sgGenState, mids ...string) string {
	if g.offerWhilePending {
		return ":createoffer-while-a-local-offer-is-pending"
	}
	for _, m := range mids {
		if g.collided[m] {
			return ":mid-was-assigned-by-an-unapplied-createoffer"
		}
	}
	if g.tainted == ":after-a-rejected-description-was-committed" {
		return g.tainted
	}
	return ""
}

// sgOriginMid is sgOrigin restricted to the origin that concerns the mid itself.
func sgOriginMid(g *sgGenState, mid string) string {
	if g.collided[mid] {
		return ":mid-was-assigned-by-an-unapplied-createoffer"
	}
	return ""
}

func p0(rec *sgRec) *vfSDP { return vfParseSDP(rec.Desc.SDP) }

// sgErrCause puts the error of a call that failed after it had changed the state into one of a
// few named causes (the ones the open C03 findings list); anything else keeps its first words.
func sgErrCause(e string) string {
	l := strings.ToLower(e)
	switch {
	case strings.Contains(l, "ice-ufrag"), strings.Contains(l, "ice-pwd"), strings.Contains(l, "ice credentials"), strings.Contains(l, "ufrag"):
		return "ice-credentials"
	case strings.Contains(l, "fingerprint"):
		return "fingerprint"
	case strings.Contains(l, "codec"), strings.Contains(l, "payload type"):
		return "codecs"
	case strings.Contains(l, "mid"):
		return "mid"
	case strings.Contains(l, "candidate"):
		return "candidate"
	}
	return "other-cause-" + sgFirstWords(e)
}
