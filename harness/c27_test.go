//go:build !js

package webrtc

// C27 — transport demultiplexing is exclusive and order-preserving.
// (i) exhaustive enumeration of (first byte, second byte, length class) through the match
// functions against the RFC 7983 table; (ii) Engine A: the real internal/mux under the
// cooperative scheduler, a simulated net.Conn feeding a seeded datagram sequence while tasks
// create the DTLS/SRTP/SRTCP endpoints at scheduler-chosen points.

import (
	"encoding/json"
	"errors"
	"fmt"
	"io"
	"net"
	"strings"
	"testing"
	"time"

	"github.com/pion/logging"
	"github.com/pion/webrtc/v4/internal/mux"
	"verifsim/simrt"
)

type c27Pkt struct {
	B0  int `json:"b0"`
	B1  int `json:"b1"`
	Len int `json:"len"`
}

type c27Case struct {
	Mode      string         `json:"mode"` // enum | coop
	Pkts      []c27Pkt       `json:"pkts,omitempty"`
	Creators  []string       `json:"creators,omitempty"` // endpoint classes created, one task each
	Strat     simrt.Strategy `json:"strat"`
	SchedSeed uint64         `json:"sched_seed"`
}

// c27Class is the reference classification (RFC 7983 §7 plus the property's SRTCP rule).
// For datagrams too short to be RTP or RTCP (len 2..3) with an RTCP-looking second byte the
// RFC gives no answer; "amb" means SRTP or SRTCP are both accepted (but never both at once).
func c27Class(b0, b1, n int) string {
	switch {
	case n == 0:
		return "none"
	case b0 >= 20 && b0 <= 63:
		return "dtls"
	case b0 >= 128 && b0 <= 191:
		if n < 2 {
			return "srtp"
		}
		if b1 >= 192 && b1 <= 223 {
			if n < 4 {
				return "amb"
			}
			return "srtcp"
		}
		return "srtp"
	}
	return "none"
}

func c27Gen(seed uint64, idx, total int, tier string) any {
	if idx == 0 {
		return &c27Case{Mode: "enum"}
	}
	r := vfNewRand(seed, "c27")
	c := &c27Case{Mode: "coop", SchedSeed: r.U64(), Strat: vfGenStrategy(r)}
	n := r.Range(1, 10)
	if r.Bool(0.1) {
		n = r.Range(17, 26) // more than the mux keeps for endpoints that do not exist yet: the surplus may be dropped, the order may not change
	}
	for i := 0; i < n; i++ {
		var p c27Pkt
		switch x := r.Intn(20); {
		case x < 6:
			p.B0, p.B1 = r.Range(20, 63), r.Intn(256)
		case x < 12:
			p.B0, p.B1 = r.Range(128, 191), r.Range(192, 223)
		case x < 18:
			p.B0 = r.Range(128, 191)
			p.B1 = vfPick(r, []int{0, 96, 111, 127, 191, 224, 255, r.Intn(192)})
		default:
			p.B0, p.B1 = vfPick(r, []int{0, 1, 3, 19, 64, 79, 127, 192, 255}), r.Intn(256)
		}
		switch x := r.Intn(12); {
		case x == 0:
			p.Len = r.Range(1, 3)
		case x == 1:
			p.Len = 4
		default:
			p.Len = r.Range(5, 40)
		}
		c.Pkts = append(c.Pkts, p)
	}
	all := []string{"dtls", "srtp", "srtcp"}
	// random non-empty subset in random order
	for _, k := range r.perm(3) {
		if r.Bool(0.8) || len(c.Creators) == 0 {
			c.Creators = append(c.Creators, all[k])
		}
	}
	return c
}

func (r *vfRand) perm(n int) []int {
	p := make([]int, n)
	for i := range p {
		p[i] = i
	}
	for i := n - 1; i > 0; i-- {
		j := r.Intn(i + 1)
		p[i], p[j] = p[j], p[i]
	}
	return p
}

// c27Conn is the simulated transport under the mux.
type c27Conn struct {
	ch     chan []byte
	closed chan struct{}
}

func (c *c27Conn) Read(p []byte) (int, error) {
	select {
	case b := <-c.ch:
		simrt.Yield("simconn:Read:1")
		return copy(p, b), nil
	case <-c.closed:
		return 0, io.EOF
	}
}
func (c *c27Conn) deliver(b []byte) {
	simrt.Yield("simconn:deliver:1")
	c.ch <- b
}
func (c *c27Conn) Write(p []byte) (int, error) { return len(p), nil }
func (c *c27Conn) Close() error {
	select {
	case <-c.closed:
	default:
		close(c.closed)
	}
	return nil
}
func (c *c27Conn) LocalAddr() net.Addr                { return &net.UDPAddr{IP: net.IPv4(10, 0, 0, 1), Port: 1} }
func (c *c27Conn) RemoteAddr() net.Addr               { return &net.UDPAddr{IP: net.IPv4(10, 0, 0, 2), Port: 2} }
func (c *c27Conn) SetDeadline(t time.Time) error      { return nil }
func (c *c27Conn) SetReadDeadline(t time.Time) error  { return nil }
func (c *c27Conn) SetWriteDeadline(t time.Time) error { return nil }

func vfSilentLoggers() logging.LoggerFactory {
	lf := logging.NewDefaultLoggerFactory()
	lf.DefaultLogLevel = logging.LogLevelDisabled
	lf.Writer = io.Discard
	return lf
}

func c27Enum(res *vfResult) {
	lens := []int{0, 1, 2, 3, 4, 9}
	n := 0
	classes := map[string]bool{}
	for b0 := 0; b0 < 256; b0++ {
		for b1 := 0; b1 < 256; b1++ {
			for _, l := range lens {
				buf := make([]byte, l)
				if l > 0 {
					buf[0] = byte(b0)
				}
				if l > 1 {
					buf[1] = byte(b1)
				}
				n++
				d, s, c := mux.MatchDTLS(buf), mux.MatchSRTP(buf), mux.MatchSRTCP(buf)
				got := ""
				cnt := 0
				if d {
					got, cnt = "dtls", cnt+1
				}
				if s {
					got, cnt = "srtp", cnt+1
				}
				if c {
					got, cnt = "srtcp", cnt+1
				}
				if cnt == 0 {
					got = "none"
				}
				want := c27Class(b0, b1, l)
				classes[want] = true
				if cnt > 1 {
					res.violate("classification-not-exclusive", fmt.Sprintf("datagram b0=%d b1=%d len=%d matches dtls=%v srtp=%v srtcp=%v", b0, b1, l, d, s, c))
					continue
				}
				ok := got == want || (want == "amb" && (got == "srtp" || got == "srtcp"))
				if !ok {
					res.violate("classification-differs-from-rfc7983:"+want+"-as-"+got, fmt.Sprintf("datagram b0=%d b1=%d len=%d classified %s, RFC 7983 table says %s", b0, b1, l, got, want))
				}
			}
		}
	}
	res.stat("enumerated_byte_length_classes", int64(n))
	res.Nontrivial = "enum-complete"
	res.Sig = "enum"
}

func c27Run(t *testing.T, cj []byte, res *vfResult) {
	var c c27Case
	if err := json.Unmarshal(cj, &c); err != nil {
		res.Verdict, res.Detail = "error", err.Error()
		return
	}
	if c.Mode == "enum" {
		c27Enum(res)
		return
	}
	// build datagrams: unique id in bytes 2.. when long enough; short ones identified by (b0,b1,len) + position
	type dg struct {
		id    int
		class string
		buf   []byte
	}
	var dgs []dg
	for i, p := range c.Pkts {
		if p.Len < 0 || p.Len > 1200 {
			continue
		}
		b := make([]byte, p.Len)
		for j := range b {
			b[j] = byte(0x40 + i) // filler identifies the datagram
		}
		if p.Len > 0 {
			b[0] = byte(p.B0)
		}
		if p.Len > 1 {
			b[1] = byte(p.B1)
		}
		dgs = append(dgs, dg{i, c27Class(p.B0, p.B1, p.Len), b})
	}
	key := func(b []byte) string { return fmt.Sprintf("%x", b) }
	// two datagrams with identical bytes would be indistinguishable: make short ones unique by dropping dups
	seen := map[string]bool{}
	var uniq []dg
	for _, d := range dgs {
		if !seen[key(d.buf)] {
			seen[key(d.buf)] = true
			uniq = append(uniq, d)
		}
	}
	dgs = uniq
	got := map[string][][]byte{}
	created := map[string]bool{}
	var fed []int // ids in arrival order
	var trace []simrt.Step
	var outcome string
	var unfinished []string
	preempts := 0
	var closeErr error
	vfBubble(t, func(t *testing.T) {
		conn := &c27Conn{ch: make(chan []byte), closed: make(chan struct{})}
		s := simrt.NewSched(c.SchedSeed, c.Strat)
		m := mux.NewMux(mux.Config{Conn: conn, BufferSize: 1500, LoggerFactory: vfSilentLoggers()})
		eps := map[string]*mux.Endpoint{}
		s.Go("feeder", func() {
			for _, d := range dgs {
				conn.deliver(d.buf)
				fed = append(fed, d.id)
			}
		})
		for _, k := range c.Creators {
			k := k
			if created[k] {
				continue
			}
			created[k] = true
			s.Go("create-"+k, func() {
				var f mux.MatchFunc
				switch k {
				case "dtls":
					f = mux.MatchDTLS
				case "srtp":
					f = mux.MatchSRTP
				default:
					f = mux.MatchSRTCP
				}
				simrt.Yield("harness:create:1")
				eps[k] = m.NewEndpoint(f)
			})
		}
		outcome = s.Run(5000, time.Millisecond, 3)
		unfinished = s.Unfinished()
		trace = append(trace, s.Trace...)
		preempts = s.Preempts
		s.StopIf(outcome == "done")
		time.Sleep(time.Millisecond) // let the free-running flush goroutines finish
		closeErr = m.Close()
		buf := make([]byte, 1500)
		for k, e := range eps {
			for {
				n, err := e.Read(buf)
				if err != nil {
					if !errors.Is(err, io.EOF) {
						res.violate("endpoint-read-error", k+": "+err.Error())
					}
					break
				}
				got[k] = append(got[k], append([]byte{}, buf[:n]...))
			}
		}
	})
	lines := []string{fmt.Sprint("fed ", fed), fmt.Sprint("created ", vfSortedKeys(created))}
	for _, k := range []string{"dtls", "srtp", "srtcp"} {
		ids := []string{}
		for _, b := range got[k] {
			ids = append(ids, key(b))
		}
		lines = append(lines, k+" <- "+strings.Join(ids, ","))
	}
	for _, st := range trace {
		lines = append(lines, fmt.Sprintf("%d@%s", st.Task, st.Site))
	}
	res.Sig = vfSig(lines)
	res.Log = lines
	res.Steps = len(trace)
	res.stat("preemptions", int64(preempts))
	if outcome != "done" {
		res.violate("mux-task-did-not-terminate", fmt.Sprintf("outcome %s: %s", outcome, strings.Join(unfinished, "; ")))
		return
	}
	if closeErr != nil {
		res.violate("mux-close-error", closeErr.Error())
	}
	// probes: a datagram arrived while its endpoint did not exist yet; arrival between endpoint
	// registration and the pending flush
	pendingBefore := false
	for _, st := range trace {
		if strings.Contains(st.Site, "mux.go:handlePendingPackets:") {
			pendingBefore = true
		}
	}
	if pendingBefore {
		res.stat("probe_pending_flush_scheduled", 1)
	}
	// oracle
	where := map[string][]string{}
	for k, list := range got {
		for _, b := range list {
			where[key(b)] = append(where[key(b)], k)
		}
	}
	byKey := map[string]dg{}
	for _, d := range dgs {
		byKey[key(d.buf)] = d
	}
	nQueued := 0
	for kb, eps := range where {
		d, known := byKey[kb]
		if !known {
			res.violate("endpoint-received-bytes-never-sent", kb)
			continue
		}
		if len(eps) > 1 {
			res.violate("datagram-delivered-more-than-once", fmt.Sprintf("datagram %d (%s) read %d times from %v", d.id, d.class, len(eps), eps))
			continue
		}
		ok := eps[0] == d.class || (d.class == "amb" && (eps[0] == "srtp" || eps[0] == "srtcp"))
		if !ok {
			res.violate("datagram-reached-wrong-endpoint:"+d.class+"-to-"+eps[0], fmt.Sprintf("datagram %d b0=%d class %s was read from the %s endpoint", d.id, d.buf[0], d.class, eps[0]))
		}
	}
	for _, k := range []string{"dtls", "srtp", "srtcp"} {
		if !created[k] {
			continue
		}
		var want []string
		for _, d := range dgs {
			if d.class == k {
				want = append(want, key(d.buf))
			}
		}
		var have []string
		for _, b := range got[k] {
			if byKey[key(b)].class == k { // ambiguous short datagrams are exempt from the order/completeness clause
				have = append(have, key(b))
			}
		}
		nQueued += len(want)
		// order: have must be a subsequence of want; completeness: equal (<= 10 datagrams per run, below the queue cap)
		j := 0
		for _, h := range have {
			for j < len(want) && want[j] != h {
				j++
			}
			if j == len(want) {
				res.violate("endpoint-read-order-differs-from-arrival-order", fmt.Sprintf("%s endpoint read %v, arrival order was %v", k, have, want))
				break
			}
			j++
		}
		if len(dgs) > 15 {
			res.stat("runs_beyond_the_pending_queue_cap", 1)
			continue // (completeness is promised below the queue's capacity only; order and exclusiveness always)
		}
		if res.Verdict == "ok" && len(have) != len(want) {
			res.violate("datagram-for-existing-endpoint-lost", fmt.Sprintf("%s endpoint read %d of %d datagrams of its class (arrival %v, read %v)", k, len(have), len(want), want, have))
		}
	}
	if preempts > 0 && nQueued > 0 {
		res.Nontrivial = res.Sig
	}
	vfKeepSchedule(res, &c.Strat, trace, &c)
}

func init() {
	vfRegister(&vfProp{
		ID: "C27", Level: "exploration", ReplayClass: "exact",
		Rule: "run 0 enumerates all 256x256 (first byte, second byte) x 6 length classes {0,1,2,3,4,>=5} through MatchDTLS/MatchSRTP/MatchSRTCP against the RFC 7983 table (complete); every other run feeds 1-10 (one run in ten: 17-26, beyond the capacity of the pending queue, where only order and exclusiveness are judged) seeded datagrams through a simulated net.Conn into the real mux while one task per endpoint class calls NewEndpoint, all scheduled by the seeded cooperative scheduler at every lock site of mux.go; non-trivial = >=1 preemption and >=1 datagram of a created class, distinct = hash of (arrival order, per-endpoint reads, schedule)",
		Real: []string{"internal/mux (mux.go, muxfunc.go, endpoint.go; instrumented copy)", "pion/transport packetio.Buffer"},
		Stub: []string{"the ICE net.Conn under the mux is a channel-backed simulated conn"},
		Assumptions: []string{"completeness is judged in runs of at most 10 datagrams, below the code's pending-queue cap (15), which the property does not promise to exceed",
			"datagrams of length 2-3 whose second byte is 192-223 are malformed for both RTP and RTCP: either SRTP or SRTCP classification is accepted, exclusivity is still required"},
		Shrink: []string{"pkts", "creators", "strat.script"},
		Gen:    c27Gen, Run: c27Run,
	})
}
