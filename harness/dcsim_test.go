//go:build !js

package webrtc

// dcsim: data channels of a real connected pair under the focus-coop scheduler (C18, C20 and the
// schedule-dependent part of C19). Both PeerConnections, their ICE/DTLS/SCTP stacks and the
// simulated network are real and run inside one bubble; every lock/atomic site of datachannel.go
// and sctptransport.go (and PeerConnection.close / CreateDataChannel) is a scheduling point, so
// channel creation, SCTP start-up, the open handshake, local close, remote close, the read loop
// and PeerConnection.Close interleave under the seeded scheduler. A sampler reads every channel's
// readyState and id at every scheduling step.

import (
	"encoding/json"
	"fmt"
	"sort"
	"strings"
	"sync"
	"testing"
	"time"

	"verifsim/simrt"
)

type dcOp struct {
	Kind     string `json:"k"` // create | close | rclose | pcclose | send | sleep
	Ch       int    `json:"ch,omitempty"`
	Graceful bool   `json:"g,omitempty"`
	ID       int    `json:"id,omitempty"`     // create: explicit id (0 = in-band, id assigned by pion)
	InBand   bool   `json:"inband,omitempty"` // create with an explicit id: announced in-band (DCEP) instead of negotiated on both sides
	Ms       int    `json:"ms,omitempty"`     // sleep
	Peer     int    `json:"p,omitempty"`      // 0 = A, 1 = B
}

type dcCase struct {
	Phase     string         `json:"phase"` // connected | starting
	BOffers   bool           `json:"b_offers,omitempty"`
	DelayUs   int            `json:"delay_us"`
	Tasks     [][]dcOp       `json:"tasks"`
	SchedSeed uint64         `json:"sched_seed"`
	Strat     simrt.Strategy `json:"strat"`
	NetSeed   uint64         `json:"net_seed"`
	// Detach (C18): both peers run with SettingEngine.DetachDataChannels; "detach" operations hand an
	// open channel's stream to the application (the channel stays open and keeps its stream id)
	Detach bool `json:"detach,omitempty"`
}

func dcGenFor(prop string) func(seed uint64, idx, total int, tier string) any {
	return func(seed uint64, idx, total int, tier string) any {
		r := vfNewRand(seed, "dc"+prop)
		c := &dcCase{Phase: vfPick(r, []string{"connected", "connected", "starting"}), BOffers: r.Bool(0.5), DelayUs: vfPick(r, []int{0, 500, 3000}),
			SchedSeed: r.U64(), Strat: vfGenStrategy(r), NetSeed: r.U64()}
		if prop == "C19" {
			c.Phase = "starting"
		}
		nch := 0
		nt := r.Range(2, 4)
		for t := 0; t < nt; t++ {
			var ops []dcOp
			peer := r.Intn(2)
			n := r.Range(1, 4)
			if prop == "C19" && r.Bool(0.5) {
				// message-heavy variant: one channel early, then sends and setter calls
				n = r.Range(3, 7)
			}
			for i := 0; i < n; i++ {
				x := r.Intn(20)
				if prop == "C19" && n > 4 && nch > 0 && x < 8 {
					x = 13 + r.Intn(5) // send or poke instead of yet another channel
				}
				switch {
				case x < 8 || nch == 0:
					op := dcOp{Kind: "create", Peer: peer, Ch: nch}
					if prop == "C18" && r.Bool(0.3) {
						op.ID = vfPick(r, []int{1, 2, 3, 4, 5, 6, 7, 100, 101, 1000, 65534})
						if r.Bool(0.5) {
							// the application picks the stream id itself (any parity) and lets DCEP announce it
							op.ID, op.InBand = r.Range(1, 8), true
						}
					}
					nch++
					ops = append(ops, op)
				case x < 11 && prop != "C19":
					ops = append(ops, dcOp{Kind: "close", Ch: r.Intn(nch), Graceful: r.Bool(0.3)})
				case x < 13 && prop != "C19":
					ops = append(ops, dcOp{Kind: "rclose", Ch: r.Intn(nch), Graceful: r.Bool(0.2)})
				case x < 15:
					ops = append(ops, dcOp{Kind: "send", Ch: r.Intn(nch)})
				case x < 18 && prop == "C19":
					ops = append(ops, dcOp{Kind: "poke", Ch: r.Intn(nch)})
				case x < 16 && prop == "C20":
					ops = append(ops, dcOp{Kind: "pcclose", Peer: r.Intn(2), Graceful: r.Bool(0.3)})
				default:
					ops = append(ops, dcOp{Kind: "sleep", Ms: r.Range(1, 30)})
				}
			}
			c.Tasks = append(c.Tasks, ops)
		}
		if prop == "C18" && r.Bool(0.25) {
			// detached channels: some of the created channels are detached once open, further channels follow
			c.Detach = true
			// (with detached channels pion starts no read loop: nothing notices a remote close and a
			// graceful close has nothing to wait for; the close operations are left to the other cases)
			for ti := range c.Tasks {
				for oi := range c.Tasks[ti] {
					if k := c.Tasks[ti][oi].Kind; k == "close" || k == "rclose" || k == "pcclose" {
						c.Tasks[ti][oi] = dcOp{Kind: "sleep", Ms: 2}
					}
				}
			}
			var ops []dcOp
			for k := r.Range(1, 3); k > 0 && nch > 0; k-- {
				ops = append(ops, dcOp{Kind: "detach", Ch: r.Intn(nch)}, dcOp{Kind: "create", Peer: r.Intn(2), Ch: nch})
				nch++
			}
			c.Tasks = append(c.Tasks, ops)
		}
		return c
	}
}

type dcObj struct {
	label     string
	side      string // "local" (created through CreateDataChannel) or "remote" (announced)
	peer      int
	d         *DataChannel
	states    []DataChannelState // distinct consecutive sampled states
	ids       []int              // distinct consecutive sampled ids (-1 = nil)
	idAt      int                // sampler tick at which the id was first seen
	opens     int
	closes    int
	explicit  bool
	sentMaybe []string
	sentOK    []string // C19: payloads Send accepted while the channel was open before and after the call
	got       []string // C19: payloads the OnMessage handler of this (remote) object was given
	invAt     int      // sampler tick at which CreateDataChannel was invoked (local channels)
	claimAt   int      // sampler tick by which the id was certainly registered with the transport: CreateDataChannel returned (local) / OnDataChannel fired (remote)
	nilAt     int      // last sampler tick at which the object was seen without an id
	closeRet  bool     // a Close()/GracefulClose() on this object returned
}

var dcRank = map[DataChannelState]int{DataChannelStateConnecting: 1, DataChannelStateOpen: 2, DataChannelStateClosing: 3, DataChannelStateClosed: 4}

func dcRunFor(prop string) func(t *testing.T, cj []byte, res *vfResult) {
	return func(t *testing.T, cj []byte, res *vfResult) {
		var c dcCase
		if err := json.Unmarshal(cj, &c); err != nil {
			res.Verdict, res.Detail = "error", err.Error()
			return
		}
		var mu sync.Mutex
		var objs []*dcObj
		chans := map[int]*dcObj{} // by channel index: the local object
		remote := map[string]*dcObj{}
		var lines []string
		var trace []simrt.Step
		outcome := ""
		var unfinished []string
		preempts := 0
		roles := [2]DTLSRole{}
		sctpNilAt := [2]int{}
		sctpUp := [2]bool{}
		pcClosed := [2]bool{}
		setupErr := ""
		sendNotOpenOK := true
		sendDetail := ""
		vfBubble(t, func(t *testing.T) {
			t0 := time.Now()
			nw, err := vfNewNetSim(c.NetSeed, vfNetCfg{BaseDelayUs: c.DelayUs})
			if err != nil {
				setupErr = err.Error()
				return
			}
			ha, _ := nw.addHost("10.0.1.2")
			hb, _ := nw.addHost("10.0.2.2")
			_ = nw.Start()
			detach := func(se *SettingEngine, me *MediaEngine, cf *Configuration) {
				if c.Detach {
					se.DetachDataChannels()
				}
			}
			pa, err := vfNewPeer("A", ha, detach)
			if err != nil {
				setupErr = err.Error()
				return
			}
			pb, err := vfNewPeer("B", hb, detach)
			if err != nil {
				setupErr = err.Error()
				return
			}
			peers := [2]*vfPeer{pa, pb}
			defer func() {
				_ = pa.pc.Close()
				_ = pb.pc.Close()
				nw.Stop()
				res.SimNs = int64(time.Since(t0))
			}()
			tick := 0
			track := func(o *dcObj) {
				mu.Lock()
				objs = append(objs, o)
				mu.Unlock()
				o.d.OnOpen(func() { mu.Lock(); o.opens++; mu.Unlock() })
				o.d.OnClose(func() { mu.Lock(); o.closes++; mu.Unlock() })
			}
			for pi, p := range peers {
				pi := pi
				p.pc.OnDataChannel(func(d *DataChannel) {
					o := &dcObj{label: d.Label(), side: "remote", peer: pi, d: d}
					mu.Lock()
					o.claimAt = tick
					remote[fmt.Sprintf("%d/%s", pi, o.label)] = o // (no instrumented call while holding the harness mutex)
					mu.Unlock()
					track(o)
					if prop == "C19" {
						d.OnMessage(func(m DataChannelMessage) {
							// an echo-style handler: looks at the channel it was called for
							_ = d.Label()
							_ = d.ReadyState()
							_ = d.BufferedAmount()
							mu.Lock()
							o.got = append(o.got, string(m.Data))
							mu.Unlock()
						})
					}
				})
			}
			off, ans := pa, pb
			if c.BOffers {
				off, ans = pb, pa
			}
			boot, err := off.pc.CreateDataChannel("boot", nil)
			if err != nil {
				setupErr = err.Error()
				return
			}
			bo := &dcObj{label: "boot", side: "local", peer: map[bool]int{false: 0, true: 1}[c.BOffers], d: boot}
			track(bo)
			if err := vfConnectPair(off, ans); err != nil {
				setupErr = "negotiation: " + err.Error()
				return
			}
			if c.Phase != "starting" {
				ok := vfWaitFor(60*time.Second, func() bool {
					return pa.pc.ConnectionState() == PeerConnectionStateConnected && pb.pc.ConnectionState() == PeerConnectionStateConnected && boot.ReadyState() == DataChannelStateOpen
				})
				if !ok {
					setupErr = "pair did not connect on a fault-free network"
					return
				}
			}
			s := simrt.NewSched(c.SchedSeed, c.Strat, "datachannel.go", "sctptransport.go", "peerconnection.go:close", "peerconnection.go:CreateDataChannel", "harness:")
			sample := func() {
				mu.Lock()
				defer mu.Unlock()
				tick++
				for pi, p := range peers {
					if p.pc.sctpTransport.sctpAssociation != nil {
						sctpUp[pi] = true
					} else if !sctpUp[pi] {
						sctpNilAt[pi] = tick // no id can have been chosen on this peer yet: open() needs the association
					}
				}
				for _, o := range objs {
					st, _ := o.d.readyState.Load().(DataChannelState)
					if n := len(o.states); n == 0 || o.states[n-1] != st {
						o.states = append(o.states, st)
					}
					id := -1
					if o.d.id != nil {
						id = int(*o.d.id)
					} else {
						o.nilAt = tick
					}
					if n := len(o.ids); n == 0 || o.ids[n-1] != id {
						o.ids = append(o.ids, id)
						if id >= 0 && o.idAt == 0 {
							o.idAt = tick
						}
					}
				}
			}
			s.OnStep = sample
			waitObj := func(get func() *dcObj) *dcObj {
				for i := 0; i < 400; i++ {
					mu.Lock()
					o := get()
					mu.Unlock()
					if o != nil {
						return o
					}
					time.Sleep(time.Millisecond)
				}
				return nil
			}
			for ti, ops := range c.Tasks {
				ti, ops := ti, ops
				s.Go(fmt.Sprintf("t%d", ti), func() {
					for oi, op := range ops {
						simrt.Yield("harness:op:1")
						switch op.Kind {
						case "create":
							if op.Peer < 0 || op.Peer > 1 {
								continue
							}
							label := fmt.Sprintf("c%d", op.Ch)
							var init *DataChannelInit
							if op.ID > 0 {
								id, neg := uint16(op.ID), true
								init = &DataChannelInit{ID: &id, Negotiated: &neg}
								if op.InBand {
									init = &DataChannelInit{ID: &id}
								}
							}
							mu.Lock()
							invAt := tick
							mu.Unlock()
							d, err := peers[op.Peer].pc.CreateDataChannel(label, init)
							mu.Lock()
							retAt := tick
							lines = append(lines, fmt.Sprintf("t%d create %s peer=%d id=%d inband=%v err=%v (steps %d..%d)", ti, label, op.Peer, op.ID, op.InBand, err, invAt, retAt))
							mu.Unlock()
							if err != nil {
								continue
							}
							o := &dcObj{label: label, side: "local", peer: op.Peer, d: d, explicit: op.ID > 0, invAt: invAt, claimAt: retAt}
							track(o)
							mu.Lock()
							chans[op.Ch] = o
							mu.Unlock()
							if op.ID > 0 && !op.InBand { // negotiated channels are created on both sides
								if d2, err := peers[1-op.Peer].pc.CreateDataChannel(label, init); err == nil {
									mu.Lock()
									ret2 := tick
									mu.Unlock()
									track(&dcObj{label: label, side: "local", peer: 1 - op.Peer, d: d2, explicit: true, invAt: retAt, claimAt: ret2})
								}
							}
						case "detach":
							o := waitObj(func() *dcObj { return chans[op.Ch] })
							if o == nil || !c.Detach {
								continue
							}
							for i := 0; i < 2000 && o.d.ReadyState() == DataChannelStateConnecting; i++ {
								time.Sleep(time.Millisecond) // (Detach is for open channels)
							}
							_, err := o.d.Detach()
							st := o.d.ReadyState() // (no instrumented call while the harness mutex is held)
							mu.Lock()
							lines = append(lines, fmt.Sprintf("t%d detach %s state=%s err=%v", ti, o.label, st, err))
							mu.Unlock()
						case "close":
							o := waitObj(func() *dcObj { return chans[op.Ch] })
							if o == nil {
								continue
							}
							var err error
							if op.Graceful {
								err = o.d.GracefulClose()
							} else {
								err = o.d.Close()
							}
							mu.Lock()
							o.closeRet = true
							lines = append(lines, fmt.Sprintf("t%d close %s graceful=%v err=%v", ti, o.label, op.Graceful, err))
							mu.Unlock()
						case "rclose":
							lo := waitObj(func() *dcObj { return chans[op.Ch] })
							if lo == nil || lo.explicit {
								continue
							}
							o := waitObj(func() *dcObj { return remote[fmt.Sprintf("%d/%s", 1-lo.peer, lo.label)] })
							if o == nil {
								continue
							}
							var err error
							if op.Graceful {
								err = o.d.GracefulClose()
							} else {
								err = o.d.Close()
							}
							mu.Lock()
							o.closeRet = true
							lines = append(lines, fmt.Sprintf("t%d remote-close %s err=%v", ti, o.label, err))
							mu.Unlock()
						case "send":
							o := waitObj(func() *dcObj { return chans[op.Ch] })
							if o == nil {
								continue
							}
							st := o.d.ReadyState()
							payload := fmt.Sprintf("m-t%d-%d", ti, oi)
							err := o.d.Send([]byte(payload))
							st2 := o.d.ReadyState()
							if err == nil {
								mu.Lock()
								if st == DataChannelStateOpen && st2 == DataChannelStateOpen {
									o.sentOK = append(o.sentOK, payload)
								} else {
									o.sentMaybe = append(o.sentMaybe, payload) // accepted around the open transition
								}
								mu.Unlock()
							}
							if err == nil && st != DataChannelStateOpen && st2 != DataChannelStateOpen {
								mu.Lock()
								sendNotOpenOK = false
								sendDetail = fmt.Sprintf("Send on %s returned nil, readyState was %s before and %s after the call", o.label, st, st2)
								mu.Unlock()
							}
						case "poke":
							// setters that take the channel's lock for writing, on the receiving object
							lo := waitObj(func() *dcObj { return chans[op.Ch] })
							if lo == nil || lo.explicit {
								continue
							}
							o := waitObj(func() *dcObj { return remote[fmt.Sprintf("%d/%s", 1-lo.peer, lo.label)] })
							if o == nil {
								continue
							}
							o.d.SetBufferedAmountLowThreshold(uint64(1000 + oi))
							o.d.OnBufferedAmountLow(func() {})
						case "pcclose":
							if op.Peer < 0 || op.Peer > 1 {
								continue
							}
							var err error
							if op.Graceful {
								err = peers[op.Peer].pc.GracefulClose()
							} else {
								err = peers[op.Peer].pc.Close()
							}
							mu.Lock()
							pcClosed[op.Peer] = true
							lines = append(lines, fmt.Sprintf("t%d pcclose peer=%d graceful=%v err=%v", ti, op.Peer, op.Graceful, err))
							mu.Unlock()
						case "sleep":
							time.Sleep(time.Duration(op.Ms%100) * time.Millisecond)
						}
					}
				})
			}
			outcome = s.Run(150000, 2*time.Millisecond, 450)
			// let in-flight handshakes / resets finish under the scheduler
			if outcome == "done" {
				for i := 0; i < 30; i++ {
					if s.Run(20000, 10*time.Millisecond, 5) != "done" {
						break
					}
				}
			}
			sample()
			unfinished = s.Unfinished()
			trace = append(trace, s.Trace...)
			preempts = s.Preempts
			vfSettle(0)
			s.StopIf(outcome == "done")
			if outcome != "done" {
				return
			}
			vfSettle(2 * time.Second)
			sample()
			roles[0], roles[1] = pa.pc.dtlsTransport.role(), pb.pc.dtlsTransport.role()
			// Send on a channel that is not open must fail
			mu.Lock()
			snapshot := append([]*dcObj{}, objs...)
			mu.Unlock()
			for _, o := range snapshot {
				if st := o.d.ReadyState(); st != DataChannelStateOpen {
					if err := o.d.Send([]byte("late")); err == nil && o.d.ReadyState() != DataChannelStateOpen {
						sendNotOpenOK = false
						sendDetail = fmt.Sprintf("Send on %s (%s, peer %d) in state %s returned nil", o.label, o.side, o.peer, st)
					}
				}
			}
			// close everything, then every channel somebody closed must end in closed
			_ = pa.pc.Close()
			_ = pb.pc.Close()
			vfSettle(3 * time.Second)
			sample()
		})
		mu.Lock()
		defer mu.Unlock()
		if setupErr != "" {
			res.Verdict, res.Detail = "error", setupErr
			return
		}
		sort.SliceStable(objs, func(i, j int) bool {
			if objs[i].label != objs[j].label {
				return objs[i].label < objs[j].label
			}
			if objs[i].peer != objs[j].peer {
				return objs[i].peer < objs[j].peer
			}
			return objs[i].side < objs[j].side
		})
		for _, o := range objs {
			var ss []string
			for _, st := range o.states {
				ss = append(ss, st.String())
			}
			lines = append(lines, fmt.Sprintf("%s peer%d %s: states %s ids %v opens=%d closes=%d", o.label, o.peer, o.side, strings.Join(ss, ">"), o.ids, o.opens, o.closes))
		}
		res.Log = append([]string{fmt.Sprintf("phase=%s bOffers=%v roles=%s/%s outcome=%s", c.Phase, c.BOffers, roles[0], roles[1], outcome)}, lines...)
		res.Steps = len(trace)
		res.stat("preemptions", int64(preempts))
		sig := append([]string{}, res.Log...)
		for _, st := range trace {
			sig = append(sig, fmt.Sprintf("%d@%s", st.Task, st.Site))
		}
		res.Sig = vfSig(sig)
		if prop == "C19" {
			// what Send accepted on an open channel reaches the other side's handler, once, in order
			// (judged also when a task never returned: by then nothing has moved for 0.9 s of fake time)
			for _, o := range objs {
				if o.side != "local" || o.explicit || len(o.sentOK) == 0 || pcClosed[0] || pcClosed[1] {
					continue
				}
				ro := remote[fmt.Sprintf("%d/%s", 1-o.peer, o.label)]
				var got []string
				if ro != nil {
					got = ro.got
				}
				// several tasks may send on one channel at once: the order between their messages is
				// not defined, the order of each task's own messages is
				bad := ""
				seen := map[string]int{}
				lastOf := map[string]int{}
				for _, g := range got {
					seen[g]++
					f := strings.Split(g, "-") // m-t<task>-<op index>
					if len(f) == 3 {
						n := 0
						fmt.Sscanf(f[2], "%d", &n)
						if prev, ok := lastOf[f[1]]; ok && n < prev {
							bad = "order of one sender's messages changed"
						}
						lastOf[f[1]] = n
					}
				}
				allowed := map[string]bool{}
				for _, m := range o.sentOK {
					allowed[m] = true
					if seen[m] == 0 {
						bad = "accepted message " + m + " never delivered"
					}
				}
				for _, m := range o.sentMaybe {
					allowed[m] = true
				}
				for g, n := range seen {
					if n > 1 {
						bad = "message " + g + " delivered more than once"
					}
					if !allowed[g] {
						bad = "delivered message " + g + " was never accepted by Send"
					}
				}
				if bad != "" {
					res.violate("accepted-message-not-delivered-in-order-exactly-once", fmt.Sprintf("%s (peer %d): %s; Send accepted %v (+%v around the open transition), the other side's handler was given %v (scheduler outcome %s; unfinished: %s)", o.label, o.peer, bad, o.sentOK, o.sentMaybe, got, outcome, strings.Join(unfinished, "; ")))
				}
			}
		}
		if outcome != "done" {
			// A task that does not return here is a GracefulClose waiting for the remote side to reset a
			// stream the remote never learned about (closed before the open message was delivered) —
			// documented behaviour of GracefulClose, and none of C18/C19/C20 promises that calls return.
			res.stat("inconclusive_task_blocked_"+outcome, 1)
			res.Log = append(res.Log, "unfinished: "+strings.Join(unfinished, "; "))
			return
		}
		if preempts > 0 && len(objs) > 1 {
			res.Nontrivial = res.Sig
		}
		switch prop {
		case "C20":
			for _, o := range objs {
				for i := 1; i < len(o.states); i++ {
					if dcRank[o.states[i]] < dcRank[o.states[i-1]] {
						res.violate(fmt.Sprintf("readystate-moved-backwards:%s-to-%s", o.states[i-1], o.states[i]), fmt.Sprintf("%s (%s object on peer %d): sampled states %v", o.label, o.side, o.peer, o.states))
					}
				}
				if o.opens > 1 {
					res.violate("onopen-ran-more-than-once", fmt.Sprintf("%s (%s, peer %d): OnOpen handler ran %d times", o.label, o.side, o.peer, o.opens))
				}
				if o.closes > 1 {
					res.violate("onclose-ran-more-than-once", fmt.Sprintf("%s (%s, peer %d): OnClose handler ran %d times", o.label, o.side, o.peer, o.closes))
				}
				// after Close was called and both connections are gone the channel must be closed
				if n := len(o.states); n > 0 && o.closeRet && o.states[n-1] != DataChannelStateClosed {
					res.violate("closed-channel-did-not-end-in-closed:"+o.states[n-1].String(), fmt.Sprintf("%s (%s, peer %d): Close returned, both PeerConnections closed, final readyState %s (history %v)", o.label, o.side, o.peer, o.states[n-1], o.states))
				}
			}
			if !sendNotOpenOK {
				res.violate("send-on-not-open-channel-succeeded", sendDetail)
			}
		case "C18":
			for pi := 0; pi < 2; pi++ {
				used := map[int]*dcObj{}
				for _, o := range objs {
					if o.peer != pi {
						continue
					}
					final := -1
					for i, id := range o.ids {
						if id >= 0 {
							final = id
						}
						if i > 0 && o.ids[i-1] >= 0 && id != o.ids[i-1] {
							res.violate("datachannel-id-changed", fmt.Sprintf("%s (%s, peer %d): id history %v", o.label, o.side, pi, o.ids))
						}
					}
					if final < 0 {
						continue
					}
					if prev, dup := used[final]; dup {
						// the property is about ids pion assigns: the channel that got the id later must be
						// one pion chose the id for (an application passing an id that is already taken is
						// the application's mistake; pion does not check it)
						auto := func(x *dcObj) bool { return x.side == "local" && !x.explicit }
						// pion chose x's id after this step: not before CreateDataChannel was called and not
						// before the peer's SCTP association existed. (The last step at which the channel
						// object showed no id is *not* a bound: open() reserves the id first and stores it
						// in the object later.)
						asgLo := func(x *dcObj) int {
							if sctpNilAt[x.peer] > x.invAt {
								return sctpNilAt[x.peer]
							}
							return x.invAt
						}
						switch {
						case auto(o) && auto(prev):
							res.violate("assigned-stream-id-already-in-use", fmt.Sprintf("peer %d: channels %s and %s were both assigned stream id %d", pi, prev.label, o.label, final))
						case auto(o) && asgLo(o) > prev.claimAt:
							res.violate("assigned-stream-id-already-in-use", fmt.Sprintf("peer %d: channel %s was assigned stream id %d after step %d, which %s channel %s had held since step %d or earlier", pi, o.label, final, asgLo(o), prev.side, prev.label, prev.claimAt))
						case auto(prev) && asgLo(prev) > o.claimAt:
							res.violate("assigned-stream-id-already-in-use", fmt.Sprintf("peer %d: channel %s was assigned stream id %d after step %d, which %s channel %s had held since step %d or earlier", pi, prev.label, final, asgLo(prev), o.side, o.label, o.claimAt))
						default:
							// an id the application chose itself (or a remote peer's) that meets a pion-assigned
							// one while both calls were in flight, or two application-chosen ids: not pion's choice
							res.stat("explicit_or_remote_id_collisions_not_counted", 1)
						}
					}
					used[final] = o
					if o.side == "local" && !o.explicit {
						if final == 65535 {
							res.violate("assigned-id-65535", fmt.Sprintf("%s on peer %d was assigned stream id 65535", o.label, pi))
						}
						wantEven := roles[pi] == DTLSRoleClient
						if (final%2 == 0) != wantEven && roles[pi] != DTLSRole(0) {
							res.violate("assigned-id-parity-wrong:role-"+roles[pi].String(), fmt.Sprintf("%s on peer %d (DTLS role %s) was assigned stream id %d", o.label, pi, roles[pi], final))
						}
					}
				}
			}
		case "C19":
			// every in-band channel created while the connection was coming up or up appears on the
			// other side with the same parameters and opens
			if !pcClosed[0] && !pcClosed[1] {
				for _, o := range objs {
					if o.side != "local" || o.explicit || o.closeRet {
						continue
					}
					opened := false
					for _, st := range o.states {
						if st == DataChannelStateOpen {
							opened = true
						}
					}
					ro := remote[fmt.Sprintf("%d/%s", 1-o.peer, o.label)]
					if ro != nil && ro.closeRet {
						continue
					}
					if !opened {
						res.violate("created-channel-never-opened", fmt.Sprintf("%s created on peer %d (phase %s): sampled states %v; the connection was up and nobody closed the channel", o.label, o.peer, c.Phase, o.states))
					} else if ro == nil {
						res.violate("in-band-channel-never-announced", fmt.Sprintf("%s created on peer %d never appeared on the other peer", o.label, o.peer))
					}
				}
			}
		}
		vfKeepSchedule(res, &c.Strat, trace, &c)
	}
}

func dcUnfinishedKinds(u []string) string {
	if len(u) == 0 {
		return "none"
	}
	return fmt.Sprint(len(u), "-tasks")
}

func init() {
	for _, id := range []string{"C18", "C20"} {
		id := id
		vfRegister(&vfProp{
			ID: id, Level: "exploration", ReplayClass: "decision-exact",
			Rule:        "case = a real connected (or still connecting) PeerConnection pair with a bootstrap data channel, and 2-4 tasks running create (in-band or negotiated with explicit id), local Close/GracefulClose, remote close, Send, PeerConnection.Close/GracefulClose and sleeps; the seeded cooperative scheduler picks who runs at every lock/atomic site of datachannel.go, sctptransport.go, PeerConnection.close and CreateDataChannel on both peers, ICE/DTLS/SCTP/network run free in fake time; a sampler records every channel's readyState and stream id at every step; non-trivial = >=1 preemption and >=2 channel objects, distinct = hash of (sampled histories, schedule)",
			Real:        []string{"both PeerConnections with real ICE, DTLS, SCTP, pion/datachannel; DataChannel/SCTPTransport code instrumented on both peers", "vnet"},
			Stub:        []string{"network: fault-free simulated network with constant delay", "signaling: in-process, non-trivial only in the 'starting' phase where tasks run while transports come up"},
			Assumptions: []string{"dependencies run free between webrtc sites, so replay is decision-exact", "C20 'once Close has been called and the transport is gone': checked after both PeerConnections were closed at the end of the run"},
			Shrink:      []string{"tasks", "tasks.0", "tasks.1", "tasks.2", "tasks.3"},
			Gen:         dcGenFor(id), Run: dcRunFor(id),
		})
	}
}
