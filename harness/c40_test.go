//go:build !js

package webrtc

// C40: concurrent use of a PeerConnection is race-free and deadlock-free.
//
// One generated concurrent program, two ways of running it:
//
//   - C40 (race-instrumented binary, real time, shim in plain mode): 2-6 goroutines run their
//     call lists on peer A while one goroutine performs 1-3 serialized offer/answer rounds with
//     peer B over the in-process network; every lock/atomic/receive site of the instrumented
//     files is a perturbation point (yield / microsecond sleep). The Go race detector is the
//     oracle for "no data race" (first report ends the process), a per-run watchdog for "every
//     call returns". The shim does no bookkeeping in this mode and the harness shares no state
//     between the goroutines: synchronisation the program does not have must not be added.
//   - C40D (ordinary binary, fake time, cooperative scheduler): the same programs, but the
//     seeded scheduler decides who runs at every lock/atomic site of peerconnection.go,
//     rtptransceiver.go, rtpsender.go, rtpreceiver.go, sctptransport.go and stats_go.go. A
//     lock-order or wait-for cycle shows up as tasks that can never be scheduled again.

import (
	"encoding/json"
	"fmt"
	"runtime"
	"strings"
	"sync"
	"sync/atomic"
	"testing"
	"time"

	"github.com/pion/rtp"
	"verifsim/simrt"
)

type c40Op struct {
	K string `json:"k"`
	A int    `json:"a,omitempty"`
}

type c40Case struct {
	Workers   [][]c40Op      `json:"workers"`
	Rounds    int            `json:"rounds"`
	Trickle   bool           `json:"trickle,omitempty"`
	Pollers   int            `json:"pollers,omitempty"` // extra goroutines that call GetStats and the getters in a tight loop
	PreDC     int            `json:"pre_dc,omitempty"`  // data channels created before signaling starts (they are opened when SCTP comes up)
	DCStorm   int            `json:"dc_storm,omitempty"` // extra goroutines that each create 25 data channels in a tight loop (writers on the SCTP transport's lock)
	SchedSeed uint64         `json:"sched_seed,omitempty"`
	Strat     simrt.Strategy `json:"strat"`
	NetSeed   uint64         `json:"net_seed"`
}

var c40Kinds = []string{"addtrack", "addtrack", "removetrack", "addtransceiverkind", "addtransceivertrack", "createdc", "createdc",
	"gettransceivers", "getsenders", "getreceivers", "getters", "getters", "getstats", "writertp", "writertp", "sleep"}

func c40Gen(seed uint64, idx, total int, tier string) any {
	r := vfNewRand(seed, "c40")
	c := &c40Case{Rounds: r.Range(1, 3), Trickle: r.Bool(0.3), SchedSeed: r.U64(), Strat: vfGenStrategy(r), NetSeed: r.U64()}
	if r.Bool(0.4) {
		c.Pollers, c.PreDC = r.Range(1, 3), vfPick(r, []int{0, 4, 16, 40})
		c.DCStorm = vfPick(r, []int{0, 0, 4, 12})
	}
	nw := r.Range(2, 6)
	closer := -1
	if r.Bool(0.5) {
		closer = r.Intn(nw)
	}
	for w := 0; w < nw; w++ {
		var ops []c40Op
		n := r.Range(3, 10)
		for i := 0; i < n; i++ {
			ops = append(ops, c40Op{K: vfPick(r, c40Kinds), A: r.Intn(1000)})
		}
		if w == closer {
			ops = append(ops, c40Op{K: "close", A: r.Intn(2)})
		}
		c.Workers = append(c.Workers, ops)
	}
	return c
}

// c40Worker runs one call list on pc. It keeps everything it creates to itself.
func c40Worker(pc *PeerConnection, wi int, ops []c40Op, cur *atomic.Int32, sleep func(time.Duration)) []string {
	var log []string
	var tracks []*TrackLocalStaticRTP
	var senders []*RTPSender
	seq := uint16(0)
	newTrack := func(a int) *TrackLocalStaticRTP {
		capab := RTPCodecCapability{MimeType: MimeTypeVP8, ClockRate: 90000}
		if a%2 == 1 {
			capab = RTPCodecCapability{MimeType: MimeTypeOpus, ClockRate: 48000, Channels: 2}
		}
		tr, _ := NewTrackLocalStaticRTP(capab, fmt.Sprintf("t%d-%d", wi, len(tracks)), fmt.Sprintf("s%d", wi))
		return tr
	}
	for i, op := range ops {
		cur.Store(int32(i))
		var err error
		switch op.K {
		case "addtrack":
			tr := newTrack(op.A)
			var s *RTPSender
			if s, err = pc.AddTrack(tr); err == nil {
				tracks = append(tracks, tr)
				senders = append(senders, s)
			}
		case "removetrack":
			if len(senders) > 0 {
				err = pc.RemoveTrack(senders[op.A%len(senders)])
			}
		case "addtransceiverkind":
			k := RTPCodecTypeVideo
			if op.A%2 == 1 {
				k = RTPCodecTypeAudio
			}
			dir := []RTPTransceiverDirection{RTPTransceiverDirectionSendrecv, RTPTransceiverDirectionRecvonly, RTPTransceiverDirectionSendonly}[op.A%3]
			_, err = pc.AddTransceiverFromKind(k, RTPTransceiverInit{Direction: dir})
		case "addtransceivertrack":
			tr := newTrack(op.A)
			var tc *RTPTransceiver
			if tc, err = pc.AddTransceiverFromTrack(tr); err == nil {
				tracks = append(tracks, tr)
				if s := tc.Sender(); s != nil {
					senders = append(senders, s)
				}
			}
		case "createdc":
			_, err = pc.CreateDataChannel(fmt.Sprintf("dc%d-%d", wi, i), nil)
		case "gettransceivers":
			for _, tc := range pc.GetTransceivers() {
				_ = tc.Mid()
				_ = tc.Direction()
				_ = tc.Kind()
				_ = tc.Sender()
				_ = tc.Receiver()
			}
		case "getsenders":
			for _, s := range pc.GetSenders() {
				_ = s.Track()
				_ = s.GetParameters()
			}
		case "getreceivers":
			for _, rc := range pc.GetReceivers() {
				_ = rc.Track()
				_ = rc.GetParameters()
			}
		case "getters":
			_ = pc.SignalingState()
			_ = pc.ConnectionState()
			_ = pc.ICEConnectionState()
			_ = pc.ICEGatheringState()
			_ = pc.LocalDescription()
			_ = pc.RemoteDescription()
			_ = pc.CurrentLocalDescription()
			_ = pc.PendingLocalDescription()
			_ = pc.CurrentRemoteDescription()
			_ = pc.PendingRemoteDescription()
			_ = pc.GetConfiguration()
			if s := pc.SCTP(); s != nil {
				_ = s.State()
			}
		case "getstats":
			_ = pc.GetStats()
		case "writertp":
			if len(tracks) > 0 {
				seq++
				err = tracks[op.A%len(tracks)].WriteRTP(&rtp.Packet{Header: rtp.Header{Version: 2, SequenceNumber: seq, Timestamp: uint32(seq) * 3000}, Payload: []byte{1, 2, 3, byte(seq)}})
			}
		case "sleep":
			sleep(time.Duration(op.A%5) * time.Millisecond)
		case "close":
			if op.A == 1 {
				err = pc.GracefulClose()
			} else {
				err = pc.Close()
			}
		}
		e := ""
		if err != nil {
			e = " -> " + err.Error()
			if len(e) > 80 {
				e = e[:80]
			}
		}
		log = append(log, fmt.Sprintf("w%d %s%s", wi, op.K, e))
	}
	cur.Store(-1)
	return log
}

// c40Signal performs rounds of offer/answer a -> b; errors end the exchange (the connection may
// have been closed by a worker).
func c40Signal(a, b *PeerConnection, rounds int, sleep func(time.Duration), stage *atomic.Int32) []string {
	var log []string
	gathered := func(pc *PeerConnection) *SessionDescription {
		for i := 0; i < 400; i++ {
			if pc.ICEGatheringState() == ICEGatheringStateComplete || pc.ConnectionState() == PeerConnectionStateClosed {
				break
			}
			sleep(5 * time.Millisecond)
		}
		return pc.LocalDescription()
	}
	for r := 0; r < rounds; r++ {
		stage.Store(int32(r*10 + 1))
		offer, err := a.CreateOffer(nil)
		if err == nil {
			stage.Store(int32(r*10 + 2))
			err = a.SetLocalDescription(offer)
		}
		if err != nil {
			log = append(log, fmt.Sprintf("round %d offer: %v", r, err))
			break
		}
		stage.Store(int32(r*10 + 3))
		full := gathered(a)
		if full == nil {
			log = append(log, fmt.Sprintf("round %d: no local description", r))
			break
		}
		stage.Store(int32(r*10 + 4))
		if err = b.SetRemoteDescription(*full); err != nil {
			log = append(log, fmt.Sprintf("round %d B.SetRemoteDescription: %v", r, err))
			break
		}
		answer, err := b.CreateAnswer(nil)
		if err == nil {
			err = b.SetLocalDescription(answer)
		}
		if err != nil {
			log = append(log, fmt.Sprintf("round %d answer: %v", r, err))
			break
		}
		fullB := gathered(b)
		stage.Store(int32(r*10 + 5))
		if fullB == nil {
			break
		}
		if err = a.SetRemoteDescription(*fullB); err != nil {
			log = append(log, fmt.Sprintf("round %d A.SetRemoteDescription: %v", r, err))
			break
		}
		log = append(log, fmt.Sprintf("round %d done", r))
		sleep(3 * time.Millisecond)
	}
	stage.Store(-1)
	return log
}

// ---------------------------------------------------------------- C40: race detector, real time

func c40RunRace(t *testing.T, cj []byte, res *vfResult) {
	var c c40Case
	if err := json.Unmarshal(cj, &c); err != nil {
		res.Verdict, res.Detail = "error", err.Error()
		return
	}
	if len(c.Workers) == 0 || len(c.Workers) > 16 {
		res.Verdict, res.Detail = "error", "workers out of range"
		return
	}
	if !simrt.Plain { // written once, before any goroutine of any run exists; a C40 worker process runs nothing else
		simrt.Plain = true
	}
	nw, err := vfNewNetSim(c.NetSeed, vfNetCfg{})
	if err != nil {
		res.Verdict, res.Detail = "error", err.Error()
		return
	}
	ha, _ := nw.addHost("10.0.1.2")
	hb, _ := nw.addHost("10.0.2.2")
	_ = nw.Start()
	defer nw.Stop()
	a, err := vfNewPeer("A", ha)
	if err != nil {
		res.Verdict, res.Detail = "error", err.Error()
		return
	}
	b, err := vfNewPeer("B", hb)
	if err != nil {
		res.Verdict, res.Detail = "error", err.Error()
		return
	}
	// (the recording handlers of vfNewPeer take a harness mutex on pion's goroutines: not here)
	for _, p := range []*vfPeer{a, b} {
		p.pc.OnSignalingStateChange(func(SignalingState) {})
		p.pc.OnConnectionStateChange(func(PeerConnectionState) {})
		p.pc.OnICEConnectionStateChange(func(ICEConnectionState) {})
		p.pc.OnNegotiationNeeded(func() {})
	}
	b.pc.OnDataChannel(func(*DataChannel) {})
	b.pc.OnTrack(func(tr *TrackRemote, _ *RTPReceiver) {
		go func() {
			buf := make([]byte, 1500)
			for {
				if _, _, e := tr.Read(buf); e != nil {
					return
				}
			}
		}()
	})
	if _, err = a.pc.CreateDataChannel("boot", nil); err != nil {
		res.Verdict, res.Detail = "error", err.Error()
		return
	}
	for i := 0; i < c.PreDC && i < 64; i++ {
		_, _ = a.pc.CreateDataChannel(fmt.Sprintf("pre%d", i), nil)
	}
	pollStop := make(chan struct{})
	var pollWG sync.WaitGroup
	for i := 0; i < c.Pollers && i < 4; i++ {
		pollWG.Add(1)
		go func() {
			defer pollWG.Done()
			for n := 0; n < 3000; n++ {
				select {
				case <-pollStop:
					return
				default:
				}
				_ = a.pc.GetStats()
				_ = a.pc.ConnectionState()
				if s := a.pc.SCTP(); s != nil {
					_ = s.State()
				}
				if n%16 == 15 {
					time.Sleep(200 * time.Microsecond)
				}
			}
		}()
	}
	for i := 0; i < c.DCStorm && i < 16; i++ {
		i := i
		pollWG.Add(1)
		go func() {
			defer pollWG.Done()
			for n := 0; n < 25; n++ {
				select {
				case <-pollStop:
					return
				default:
				}
				_, _ = a.pc.CreateDataChannel(fmt.Sprintf("storm%d-%d", i, n), nil)
				if n%4 == 3 {
					time.Sleep(100 * time.Microsecond)
				}
			}
		}()
	}
	defer func() {
		close(pollStop)
		done := make(chan struct{})
		go func() { pollWG.Wait(); close(done) }()
		select {
		case <-done:
		case <-time.After(3 * time.Second): // (a poller stuck in a deadlocked call is reported by the watchdog below, not waited for)
		}
	}()
	logs := make([][]string, len(c.Workers)+1)
	curs := make([]atomic.Int32, len(c.Workers)+1)
	var wg sync.WaitGroup
	for wi, ops := range c.Workers {
		wi, ops := wi, ops
		wg.Add(1)
		go func() {
			defer wg.Done()
			logs[wi] = c40Worker(a.pc, wi, ops, &curs[wi], time.Sleep)
		}()
	}
	wg.Add(1)
	go func() {
		defer wg.Done()
		logs[len(c.Workers)] = c40Signal(a.pc, b.pc, c.Rounds, time.Sleep, &curs[len(c.Workers)])
	}()
	done := make(chan struct{})
	go func() { wg.Wait(); close(done) }()
	select {
	case <-done:
	case <-time.After(25 * time.Second):
		var pend []string
		for wi := range c.Workers {
			if i := curs[wi].Load(); i >= 0 && int(i) < len(c.Workers[wi]) {
				pend = append(pend, fmt.Sprintf("worker %d in %s (op %d)", wi, c.Workers[wi][i].K, i))
			}
		}
		if st := curs[len(c.Workers)].Load(); st >= 0 {
			pend = append(pend, fmt.Sprintf("signaling goroutine at stage %d", st))
		}
		buf := make([]byte, 1<<20)
		n := runtime.Stack(buf, true)
		res.violate("call-did-not-return", fmt.Sprintf("after 25 s (real time, nothing is waiting for the network): %s\n%s", strings.Join(pend, "; "), c40Trim(string(buf[:n]))))
		return
	}
	for _, l := range logs {
		res.Log = append(res.Log, l...)
	}
	calls := 0
	for _, ops := range c.Workers {
		calls += len(ops)
	}
	res.stat("concurrent_api_calls", int64(calls))
	res.stat("signaling_rounds_requested", int64(c.Rounds))
	for _, l := range logs[len(c.Workers)] {
		if strings.HasSuffix(l, "done") {
			res.stat("signaling_rounds_completed", 1)
		}
	}
	// join everything the connections started before the next run
	cd := make(chan struct{})
	go func() { _ = a.pc.GracefulClose(); _ = b.pc.GracefulClose(); close(cd) }()
	select {
	case <-cd:
	case <-time.After(25 * time.Second):
		buf := make([]byte, 1<<20)
		n := runtime.Stack(buf, true)
		res.violate("call-did-not-return:final-gracefulclose", c40Trim(string(buf[:n])))
		return
	}
	res.Sig = vfSig(res.Log)
	res.Nontrivial = res.Sig
}

// c40Trim keeps the goroutines that are inside pion/webrtc code.
func c40Trim(stacks string) string {
	var keep []string
	for _, g := range strings.Split(stacks, "\n\n") {
		if strings.Contains(g, "github.com/pion/webrtc/v4.(*") && !strings.Contains(g, "TestVerif") {
			lines := strings.Split(g, "\n")
			if len(lines) > 14 {
				lines = lines[:14]
			}
			keep = append(keep, strings.Join(lines, "\n"))
		}
		if len(keep) >= 12 {
			break
		}
	}
	return strings.Join(keep, "\n\n")
}

// ---------------------------------------------------------------- C40D: cooperative scheduler, fake time

func c40RunCoop(t *testing.T, cj []byte, res *vfResult) {
	var c c40Case
	if err := json.Unmarshal(cj, &c); err != nil {
		res.Verdict, res.Detail = "error", err.Error()
		return
	}
	if len(c.Workers) == 0 || len(c.Workers) > 16 {
		res.Verdict, res.Detail = "error", "workers out of range"
		return
	}
	var trace []simrt.Step
	outcome := ""
	var unfinished, blocked []string
	preempts := 0
	logs := make([][]string, len(c.Workers)+1)
	setupErr := ""
	vfBubble(t, func(t *testing.T) {
		t0 := time.Now()
		nw, err := vfNewNetSim(c.NetSeed, vfNetCfg{BaseDelayUs: 500})
		if err != nil {
			setupErr = err.Error()
			return
		}
		ha, _ := nw.addHost("10.0.1.2")
		hb, _ := nw.addHost("10.0.2.2")
		_ = nw.Start()
		a, err := vfNewPeer("A", ha)
		if err != nil {
			setupErr = err.Error()
			return
		}
		b, err := vfNewPeer("B", hb)
		if err != nil {
			setupErr = err.Error()
			return
		}
		defer func() {
			_ = a.pc.Close()
			_ = b.pc.Close()
			nw.Stop()
			res.SimNs = int64(time.Since(t0))
		}()
		b.pc.OnDataChannel(func(*DataChannel) {})
		if _, err = a.pc.CreateDataChannel("boot", nil); err != nil {
			setupErr = err.Error()
			return
		}
		s := simrt.NewSched(c.SchedSeed, c.Strat, "peerconnection.go", "rtptransceiver.go", "rtpsender.go", "rtpreceiver.go", "sctptransport.go", "stats_go.go", "track_local_static.go", "harness:")
		curs := make([]atomic.Int32, len(c.Workers)+1)
		for wi, ops := range c.Workers {
			wi, ops := wi, ops
			s.Go(fmt.Sprintf("w%d", wi), func() {
				simrt.Yield("harness:start:1")
				logs[wi] = c40Worker(a.pc, wi, ops, &curs[wi], time.Sleep)
			})
		}
		s.Go("signaling", func() {
			simrt.Yield("harness:start:1")
			logs[len(c.Workers)] = c40Signal(a.pc, b.pc, c.Rounds, time.Sleep, &curs[len(c.Workers)])
		})
		outcome = s.Run(400000, 2*time.Millisecond, 3000)
		unfinished = s.Unfinished()
		blocked = simrt.BlockedReport()
		trace = append(trace, s.Trace...)
		preempts = s.Preempts
		vfSettle(0)
		s.StopIf(outcome == "done")
		if outcome != "done" {
			var pend []string
			for wi := range c.Workers {
				if i := curs[wi].Load(); i >= 0 && int(i) < len(c.Workers[wi]) {
					pend = append(pend, fmt.Sprintf("worker %d in %s (op %d)", wi, c.Workers[wi][i].K, i))
				}
			}
			if st := curs[len(c.Workers)].Load(); st >= 0 {
				pend = append(pend, fmt.Sprintf("signaling task at stage %d", st))
			}
			unfinished = append(pend, unfinished...)
		}
	})
	if setupErr != "" {
		res.Verdict, res.Detail = "error", setupErr
		return
	}
	for _, l := range logs {
		res.Log = append(res.Log, l...)
	}
	res.Steps = len(trace)
	res.stat("preemptions", int64(preempts))
	sig := append([]string{}, res.Log...)
	for _, st := range trace {
		sig = append(sig, fmt.Sprintf("%d@%s", st.Task, st.Site))
	}
	res.Sig = vfSig(sig)
	if outcome != "done" {
		res.violate("calls-never-return:"+outcome, fmt.Sprintf("the scheduler ended with outcome %q after %d steps: %s; lock waits: %s", outcome, len(trace), strings.Join(unfinished, "; "), strings.Join(blocked, "; ")))
	}
	if preempts > 0 {
		res.Nontrivial = res.Sig
	}
	vfKeepSchedule(res, &c.Strat, trace, &c)
}

func init() {
	rule := "case = 2-6 call lists of 3-10 calls each over AddTrack, RemoveTrack, AddTransceiverFromKind/FromTrack, CreateDataChannel, GetTransceivers/GetSenders/GetReceivers (and their accessors), the state and description getters, GetStats, WriteRTP on own tracks, sleeps, and for half the cases a final Close/GracefulClose in one list; one more goroutine runs 1-3 serialized offer/answer rounds against a second real PeerConnection"
	vfRegister(&vfProp{
		ID: "C40", Level: "exploration", ReplayClass: "decision-exact",
		Gen: c40Gen, Run: c40RunRace,
		Rule: rule + "; race-detector build, real goroutines in real time, perturbation (yield / 1-200 us sleep) at every instrumented lock, atomic and receive site; non-trivial = the program ran to its end, distinct = hash of the per-goroutine call logs",
		Real: []string{"both PeerConnections with real ICE, DTLS, SCTP, SRTP", "vnet", "Go race detector"},
		Stub: []string{"network: vnet in-process, no faults", "signaling: in-process"},
		Assumptions: []string{"the interleaving is the Go runtime's (perturbed), not chosen by the seed: the race detector's happens-before analysis does not need the racing accesses to collide in time, and a schedule the shim controlled would add synchronisation that hides races",
			"a run that does not finish within 25 s of real time although nothing waits for the network is reported as calls that do not return"},
	})
	vfRegister(&vfProp{
		ID: "C40D", Level: "exploration", ReplayClass: "decision-exact",
		Gen: c40Gen, Run: c40RunCoop,
		Rule: rule + "; fake time, the seeded cooperative scheduler picks who runs at every lock/atomic site of peerconnection.go, rtptransceiver.go, rtpsender.go, rtpreceiver.go, sctptransport.go, stats_go.go and track_local_static.go; non-trivial = at least one preemption, distinct = hash of (call logs, schedule)",
		Real: []string{"both PeerConnections with real ICE, DTLS, SCTP, SRTP", "vnet"},
		Stub: []string{"network: vnet + seeded per-datagram fate (constant delay)", "signaling: in-process"},
	})
}
