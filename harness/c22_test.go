//go:build !js

package webrtc

// C22 — connection state is the W3C aggregate of ICE and DTLS states.
// (i) exhaustive: closed x 7 ICE x 5 DTLS through updateConnectionState against a table
// transcribed from the W3C text; (ii) Engine A (focus-coop) on a real, never-connected
// PeerConnection: tasks deliver seeded sequences of ICE and DTLS state changes through the real
// handler/setter paths (and optionally Close) while the scheduler interleaves them at every
// lock/atomic site of the connection-state code; a sampler reads the stored state at every
// scheduling step.

import (
	"encoding/json"
	"fmt"
	"sort"
	"strings"
	"sync"
	"testing"
	"time"

	"verifsim/simrt"
)

type c22Case struct {
	Mode      string         `json:"mode"`                // enum | coop
	ICE       []int          `json:"ice,omitempty"`       // ICETransportState values delivered in order
	DTLS      []int          `json:"dtls,omitempty"`      // DTLSTransportState values set in order; an update follows the last one
	DTLSEach  bool           `json:"dtls_each,omitempty"` // update after every DTLS change instead of only the last
	Close     bool           `json:"close,omitempty"`
	SchedSeed uint64         `json:"sched_seed"`
	Strat     simrt.Strategy `json:"strat"`
}

// c22W3C is RTCPeerConnectionState per https://www.w3.org/TR/webrtc/#rtcpeerconnectionstate-enum
// for one ICE transport and one DTLS transport.
func c22W3C(closed bool, ice ICEConnectionState, dtls DTLSTransportState) PeerConnectionState {
	iceIn := func(xs ...ICEConnectionState) bool {
		for _, x := range xs {
			if ice == x {
				return true
			}
		}
		return false
	}
	dtlsIn := func(xs ...DTLSTransportState) bool {
		for _, x := range xs {
			if dtls == x {
				return true
			}
		}
		return false
	}
	switch {
	case closed:
		return PeerConnectionStateClosed
	case iceIn(ICEConnectionStateFailed) || dtlsIn(DTLSTransportStateFailed):
		return PeerConnectionStateFailed
	case iceIn(ICEConnectionStateDisconnected):
		return PeerConnectionStateDisconnected
	case iceIn(ICEConnectionStateNew, ICEConnectionStateClosed) && dtlsIn(DTLSTransportStateNew, DTLSTransportStateClosed):
		return PeerConnectionStateNew
	case iceIn(ICEConnectionStateNew, ICEConnectionStateChecking) || dtlsIn(DTLSTransportStateNew, DTLSTransportStateConnecting):
		return PeerConnectionStateConnecting
	case iceIn(ICEConnectionStateConnected, ICEConnectionStateCompleted, ICEConnectionStateClosed) && dtlsIn(DTLSTransportStateConnected, DTLSTransportStateClosed):
		return PeerConnectionStateConnected
	}
	return PeerConnectionStateNew
}

var (
	c22ICEStates = []ICEConnectionState{ICEConnectionStateNew, ICEConnectionStateChecking, ICEConnectionStateConnected,
		ICEConnectionStateCompleted, ICEConnectionStateDisconnected, ICEConnectionStateFailed, ICEConnectionStateClosed}
	c22DTLSStates = []DTLSTransportState{DTLSTransportStateNew, DTLSTransportStateConnecting, DTLSTransportStateConnected,
		DTLSTransportStateClosed, DTLSTransportStateFailed}
	c22ICETransport = []ICETransportState{ICETransportStateNew, ICETransportStateChecking, ICETransportStateConnected,
		ICETransportStateCompleted, ICETransportStateDisconnected, ICETransportStateFailed, ICETransportStateClosed}
)

func c22Gen(seed uint64, idx, total int, tier string) any {
	if idx == 0 {
		return &c22Case{Mode: "enum"}
	}
	r := vfNewRand(seed, "c22")
	c := &c22Case{Mode: "coop", SchedSeed: r.U64(), Strat: vfGenStrategy(r), Close: r.Bool(0.25), DTLSEach: r.Bool(0.3)}
	// plausible ICE walks, with some arbitrary jumps
	walks := [][]int{{1, 2}, {1, 2, 4, 2}, {1, 2, 4, 5}, {1, 5}, {1, 2, 3}, {1, 2, 4, 2, 4, 5}, {1, 2, 6}}
	c.ICE = append([]int{}, walks[r.Intn(len(walks))]...)
	if r.Bool(0.2) {
		c.ICE = nil
		for i := r.Range(1, 5); i > 0; i-- {
			c.ICE = append(c.ICE, r.Intn(7))
		}
	}
	dw := [][]int{{1, 2}, {1, 4}, {1, 2, 3}, {1}, {1, 2, 4}}
	c.DTLS = append([]int{}, dw[r.Intn(len(dw))]...)
	return c
}

func c22Enum(t *testing.T, res *vfResult) {
	n := 0
	vfBubble(t, func(t *testing.T) {
		for _, closed := range []bool{false, true} {
			for _, ice := range c22ICEStates {
				for _, dtls := range c22DTLSStates {
					p, err := vfNewPeer("E", nil)
					if err != nil {
						res.Verdict, res.Detail = "error", err.Error()
						return
					}
					// move away from the initial "new" first so that every target value is a change
					p.pc.isClosed.Store(closed)
					p.pc.updateConnectionState(ice, dtls)
					got := p.pc.ConnectionState()
					want := c22W3C(closed, ice, dtls)
					n++
					if got != want {
						res.violate(fmt.Sprintf("aggregate-differs-from-w3c:closed=%v,ice=%s,dtls=%s", closed, ice, dtls),
							fmt.Sprintf("closed=%v ICE=%s DTLS=%s: PeerConnectionState %s, W3C table says %s", closed, ice, dtls, got, want))
					}
					p.pc.isClosed.Store(false)
					_ = p.pc.Close()
				}
			}
		}
	})
	res.stat("enumerated_state_combinations", int64(n))
	res.Nontrivial = "enum-complete"
	res.Sig = "enum"
}

func c22Run(t *testing.T, cj []byte, res *vfResult) {
	var c c22Case
	if err := json.Unmarshal(cj, &c); err != nil {
		res.Verdict, res.Detail = "error", err.Error()
		return
	}
	if c.Mode == "enum" {
		c22Enum(t, res)
		return
	}
	var mu sync.Mutex
	var handled []string // handler invocations (execution order)
	var sampled []string // distinct consecutive values of the stored state seen by the sampler
	var trace []simrt.Step
	outcome := ""
	var unfinished []string
	preempts := 0
	final, wantFinal := "", ""
	handledN := 0
	finalInputs := ""
	vfBubble(t, func(t *testing.T) {
		p, err := vfNewPeer("A", nil)
		if err != nil {
			res.Verdict, res.Detail = "error", err.Error()
			return
		}
		pc := p.pc
		pc.OnConnectionStateChange(func(s PeerConnectionState) {
			mu.Lock()
			handled = append(handled, s.String())
			mu.Unlock()
		})
		iceHandler, _ := pc.iceTransport.internalOnConnectionStateChangeHandler.Load().(func(ICETransportState))
		if iceHandler == nil {
			res.Verdict, res.Detail = "error", "no internal ICE state handler"
			return
		}
		s := simrt.NewSched(c.SchedSeed, c.Strat,
			"peerconnection.go", "dtlstransport.go:State", "harness:")
		last := pc.connectionState.Load().(PeerConnectionState).String()
		s.OnStep = func() {
			cur, _ := pc.connectionState.Load().(PeerConnectionState)
			if cs := cur.String(); cs != last {
				sampled = append(sampled, cs)
				last = cs
			}
		}
		s.Go("ice", func() {
			for _, st := range c.ICE {
				if st < 0 || st >= len(c22ICETransport) {
					continue
				}
				simrt.Yield("harness:ice:1")
				iceHandler(c22ICETransport[st])
			}
		})
		s.Go("dtls", func() {
			for i, st := range c.DTLS {
				if st < 0 || st >= len(c22DTLSStates) {
					continue
				}
				simrt.Yield("harness:dtls:1")
				pc.dtlsTransport.lock.Lock()
				pc.dtlsTransport.onStateChange(c22DTLSStates[st])
				pc.dtlsTransport.lock.Unlock()
				if c.DTLSEach || i == len(c.DTLS)-1 {
					// what startTransports does after DTLSTransport.Start returned (statement copied
					// from the tree under test at build time)
					vfGenAfterDTLSStart(pc)
				}
			}
		})
		if c.Close {
			s.Go("close", func() {
				simrt.Yield("harness:close:1")
				_ = pc.Close()
			})
		}
		outcome = s.Run(20000, time.Millisecond, 5)
		unfinished = s.Unfinished()
		s.OnStep()
		trace = append(trace, s.Trace...)
		preempts = s.Preempts
		s.StopIf(outcome == "done")
		vfSettle(10 * time.Millisecond)
		fs, _ := pc.connectionState.Load().(PeerConnectionState)
		final = fs.String()
		ice, dtls, closed := pc.ICEConnectionState(), pc.dtlsTransport.State(), pc.isClosed.Load()
		wantFinal = c22W3C(closed, ice, dtls).String()
		finalInputs = fmt.Sprintf("closed=%v ICE=%s DTLS=%s", closed, ice, dtls)
		mu.Lock()
		handledN = len(handled)
		mu.Unlock()
		if !c.Close {
			_ = pc.Close()
		}
	})
	mu.Lock()
	defer mu.Unlock()
	handled = handled[:handledN] // the clean-up Close() after the run is not part of the history
	lines := []string{fmt.Sprint("ice ", c.ICE, " dtls ", c.DTLS, " close ", c.Close, " dtlsEach ", c.DTLSEach),
		"sampled " + strings.Join(sampled, ","), "final " + final + " want " + wantFinal + " (" + finalInputs + ")"}
	hs := append([]string{}, handled...)
	sort.Strings(hs)
	lines = append(lines, "handled(sorted) "+strings.Join(hs, ","))
	for _, st := range trace {
		lines = append(lines, fmt.Sprintf("%d@%s", st.Task, st.Site))
	}
	res.Log = lines
	res.Sig = vfSig(lines)
	res.Steps = len(trace)
	res.stat("preemptions", int64(preempts))
	if outcome != "done" {
		res.violate("state-update-did-not-return", fmt.Sprintf("outcome %s: %s", outcome, strings.Join(unfinished, "; ")))
		vfKeepSchedule(res, &c.Strat, trace, &c)
		return
	}
	if preempts > 0 {
		res.Nontrivial = res.Sig
	}
	// (b) a notification for every change and only for changes: multiset of handler values ==
	// multiset of transitions the sampler saw (every store is separated from the next by a
	// scheduling point, so the sampler sees every stored value that differs from its predecessor)
	cnt := map[string]int{}
	for _, v := range sampled {
		cnt[v]++
	}
	for _, v := range handled {
		cnt[v]--
	}
	for _, k := range vfSortedKeys(cnt) {
		if cnt[k] < 0 {
			res.violate("handler-invoked-without-state-change:"+k, fmt.Sprintf("OnConnectionStateChange(%s) ran %d more time(s) than the state changed to it; changes seen: %v; handler calls: %v", k, -cnt[k], sampled, handled))
		}
		if cnt[k] > 0 {
			res.violate("state-change-without-notification:"+k, fmt.Sprintf("state changed to %s %d more time(s) than the handler was told; changes seen: %v; handler calls: %v", k, cnt[k], sampled, handled))
		}
	}
	// (c) at quiescence the stored state is the aggregate of the current inputs
	if final != wantFinal {
		res.violate("final-connection-state-stale", fmt.Sprintf("after all updates finished: PeerConnectionState=%s but %s aggregates to %s", final, finalInputs, wantFinal))
	}
	vfKeepSchedule(res, &c.Strat, trace, &c)
}

func init() {
	vfRegister(&vfProp{
		ID: "C22", Level: "exploration", ReplayClass: "exact",
		Rule: "run 0 enumerates closed x 7 ICE x 5 DTLS (70 combinations, complete) through updateConnectionState against a table transcribed from the W3C text; every other run delivers a seeded ICE state walk through the real internal ICE handler, a DTLS state walk through the real setter followed by the update startTransports performs, and optionally a real Close(), as concurrent tasks interleaved by the seeded cooperative scheduler at every lock/atomic site of the connection-state functions; non-trivial = >=1 preemption, distinct = hash of (inputs, sampled states, schedule)",
		Real: []string{"PeerConnection.updateConnectionState/onConnectionStateChange/onICEConnectionStateChange/close, DTLSTransport state (instrumented)"},
		Stub: []string{"transports are never started: ICE/DTLS state changes are injected through the same internal handler/setter the real transports call"},
		Assumptions: []string{"'at every update' is read as: once all updates finished, the stored state is the aggregate of the current closed/ICE/DTLS values; transient values computed from inputs that were current when an update started are not reported",
			"notification clause: multiset of handler invocations equals multiset of observed state changes (handlers run in their own goroutines, so their order is not used)"},
		Shrink: []string{"ice", "dtls", "strat.script"},
		Gen:    c22Gen, Run: c22Run,
	})
}
