//go:build !js

package webrtc

// sigsim: the sequential signaling driver of Engine B. Two real PeerConnections (A, B) on the
// simulated network plus a "foreign" peer (a generator of syntactically valid non-pion SDP)
// execute a seeded history of API operations. The signaling channel between A and B is owned by
// the simulator: descriptions travel as messages that can be delayed (delivered later or never),
// reordered, duplicated and tampered with. After every operation the driver drains the operation
// queues and records a snapshot; the per-property oracles (C01-C04, C06-C12, C16, C39) are pure
// functions over the recorded history.

import (
	"crypto/ecdsa"
	"crypto/elliptic"
	"crypto/rand"
	"encoding/json"
	"errors"
	"fmt"
	"strings"
	"testing"
	"time"

	"github.com/pion/webrtc/v4/pkg/rtcerr"
)

type sgOp struct {
	Kind string `json:"k"`
	Peer int    `json:"p"`
	A    int    `json:"a,omitempty"`
	B    int    `json:"b,omitempty"`
	S    string `json:"s,omitempty"`
}

type sgPeerCfg struct {
	Semantics  int    `json:"semantics,omitempty"` // 0 unified, 1 plan-b, 2 unified with fallback
	Bundle     int    `json:"bundle,omitempty"`    // BundlePolicy 0..3
	AlwaysDC   bool   `json:"always_dc,omitempty"`
	MediaFP    bool   `json:"media_fp,omitempty"` // fingerprints at media level
	Codecs     int    `json:"codecs,omitempty"`   // media engine variant
	Lite       bool   `json:"lite,omitempty"`
	AnswerRole int    `json:"answer_role,omitempty"` // 0 unset 1 client 2 server
	PoolSize   int    `json:"pool,omitempty"`
	RTCPMux    int    `json:"rtcp_mux,omitempty"`
	CodecSeed  uint64 `json:"codec_seed,omitempty"`
	TwoCerts   bool   `json:"two_certs,omitempty"`      // created with two certificates
	HandlerAns bool   `json:"handler_answer,omitempty"` // the application calls CreateAnswer from OnSignalingStateChange(have-remote-offer)
}

type sgCase struct {
	Prop    string       `json:"prop"`
	Peers   [2]sgPeerCfg `json:"peers"`
	Ops     []sgOp       `json:"ops"`
	GenSeed uint64       `json:"gen_seed"` // foreign SDP generator / tamper details
}

type sgSnap struct {
	State          string
	PL, CL, PR, CR string // description tokens
	Local, Remote  string
	SigEvents      int
	NegFires       int
	Closed         bool
}

type sgMsg struct {
	Desc   SessionDescription
	From   int
	Serial int
}

type sgRec struct {
	Idx       int
	Op        sgOp
	Kind      string // setlocal | setremote | create-offer | create-answer | media | other
	Side      string // local | remote
	Type      string // sdp type of the description involved
	Err       string
	ErrKind   string // InvalidState | InvalidModification | Type | other | ""
	Pre       sgSnap
	Post      sgSnap
	Desc      *SessionDescription // created or applied description (as passed to the API)
	Implied   *SessionDescription // JSEP 5.4: the created description an empty SetLocalDescription stands for
	Tamper    string
	Foreign   bool
	EmptySDP  bool
	Undrained bool // queued work did not finish within the drain budget: "each call's queued work finishes before the next" does not hold here
	Note      string
}

type sgPeerState struct {
	p             *vfPeer
	cfg           sgPeerCfg
	created       []SessionDescription // everything CreateOffer/CreateAnswer returned, in order
	lastOffer     *SessionDescription  // remote offer most recently applied successfully
	inbox         []sgMsg
	tracks        []TrackLocal
	senders       []*RTPSender
	dcs           int
	trSeen        []*RTPTransceiver
	changes       []sgChange
	closed        bool
	gen           *sgGenState
	explicitPrefs bool // SetCodecPreferences was given codecs with explicit (local) payload types
	anyPrefs      bool // SetCodecPreferences was called at all
	trackOf       map[*RTPSender]TrackLocal
	trackSet      []*RTPSender
	handlerAns    []SessionDescription // answers the OnSignalingStateChange handler created
	foreign       *sgForeignSession
	partner       string // "", "pion" or "foreign": a connection negotiates with one remote party only
}

// sgChange is a change that requires negotiation (C04).
type sgChange struct {
	at   int // record index
	what string
}

type sgRun struct {
	invalidRemote string // non-empty: a remote description broke the rules of renegotiation (which one)
	c             *sgCase
	res           *vfResult
	peers         [2]*sgPeerState
	recs          []*sgRec
	rnd           *vfRand
	serial        int
	nw            *vfNetSim
	lines         []string
}

func sgErrKind(err error) string {
	if err == nil {
		return ""
	}
	var e1 *rtcerr.InvalidStateError
	var e2 *rtcerr.InvalidModificationError
	var e3 *rtcerr.TypeError
	var e4 *rtcerr.InvalidAccessError
	switch {
	case errors.As(err, &e1):
		return "InvalidState"
	case errors.As(err, &e2):
		return "InvalidModification"
	case errors.As(err, &e3):
		return "Type"
	case errors.As(err, &e4):
		return "InvalidAccess"
	}
	return "other"
}

func (r *sgRun) snap(i int) sgSnap {
	ps := r.peers[i]
	pc := ps.p.pc
	s := sgSnap{State: pc.SignalingState().String(), Closed: pc.isClosed.Load()}
	s.PL = vfDescToken(pc.PendingLocalDescription())
	s.CL = vfDescToken(pc.CurrentLocalDescription())
	s.PR = vfDescToken(pc.PendingRemoteDescription())
	s.CR = vfDescToken(pc.CurrentRemoteDescription())
	s.Local = vfDescToken(pc.LocalDescription())
	s.Remote = vfDescToken(pc.RemoteDescription())
	ps.p.snapshot(func() {
		s.SigEvents = len(ps.p.sigStates)
		s.NegFires = len(ps.p.negNeeded)
	})
	return s
}

// drain reports whether both queues really ran dry (an operation can block for good, e.g.
// startRTP waiting for a DTLS transport that never starts because ICE failed).
func (r *sgRun) drain() bool {
	ok := vfDrain(70*time.Second, r.peers[0].p, r.peers[1].p)
	vfSettle(time.Millisecond)
	for _, ps := range r.peers {
		if !ps.p.pc.ops.IsEmpty() {
			ok = false
		}
	}
	return ok
}

func sgPeerOpts(cfg sgPeerCfg) vfPeerOpt {
	return func(se *SettingEngine, me *MediaEngine, c *Configuration) {
		switch cfg.Semantics {
		case 1:
			c.SDPSemantics = SDPSemanticsPlanB
		case 2:
			c.SDPSemantics = SDPSemanticsUnifiedPlanWithFallback
		}
		c.BundlePolicy = BundlePolicy(cfg.Bundle)
		c.RTCPMuxPolicy = RTCPMuxPolicy(cfg.RTCPMux)
		c.AlwaysNegotiateDataChannels = cfg.AlwaysDC
		c.ICECandidatePoolSize = uint8(cfg.PoolSize)
		se.SetSDPMediaLevelFingerprints(cfg.MediaFP)
		se.SetLite(cfg.Lite)
		switch cfg.AnswerRole {
		case 1:
			_ = se.SetAnsweringDTLSRole(DTLSRoleClient)
		case 2:
			_ = se.SetAnsweringDTLSRole(DTLSRoleServer)
		}
		sgRegisterCodecs(me, cfg)
		if cfg.TwoCerts {
			for k := 0; k < 2; k++ {
				if sk, err := ecdsa.GenerateKey(elliptic.P256(), rand.Reader); err == nil {
					if ct, err := GenerateCertificate(sk); err == nil {
						c.Certificates = append(c.Certificates, *ct)
					}
				}
			}
		}
	}
}

// sgRegisterCodecs installs one of a few media-engine variants (0 = pion defaults).
func sgRegisterCodecs(me *MediaEngine, cfg sgPeerCfg) {
	if cfg.Codecs == 0 {
		return // defaults are registered by vfNewPeer
	}
	r := vfNewRand(cfg.CodecSeed, "codecs")
	fb := []RTCPFeedback{{Type: "nack"}, {Type: "nack", Parameter: "pli"}, {Type: "goog-remb"}}
	pt := func() PayloadType { return PayloadType(96 + r.Intn(30)) }
	used := map[PayloadType]bool{}
	next := func() PayloadType {
		for {
			p := pt()
			if !used[p] {
				used[p] = true
				return p
			}
		}
	}
	switch cfg.Codecs {
	case 1: // opus + vp8 with remapped payload types and RTX
		_ = me.RegisterCodec(RTPCodecParameters{RTPCodecCapability: RTPCodecCapability{MimeType: MimeTypeOpus, ClockRate: 48000, Channels: 2, SDPFmtpLine: "minptime=10;useinbandfec=1"}, PayloadType: next()}, RTPCodecTypeAudio)
		v := next()
		_ = me.RegisterCodec(RTPCodecParameters{RTPCodecCapability: RTPCodecCapability{MimeType: MimeTypeVP8, ClockRate: 90000, RTCPFeedback: fb}, PayloadType: v}, RTPCodecTypeVideo)
		_ = me.RegisterCodec(RTPCodecParameters{RTPCodecCapability: RTPCodecCapability{MimeType: MimeTypeRTX, ClockRate: 90000, SDPFmtpLine: fmt.Sprintf("apt=%d", v)}, PayloadType: next()}, RTPCodecTypeVideo)
	case 2: // h264 (two profiles) + vp9 + pcmu, RTX whose primary is absent
		_ = me.RegisterCodec(RTPCodecParameters{RTPCodecCapability: RTPCodecCapability{MimeType: MimeTypePCMU, ClockRate: 8000}, PayloadType: 0}, RTPCodecTypeAudio)
		_ = me.RegisterCodec(RTPCodecParameters{RTPCodecCapability: RTPCodecCapability{MimeType: MimeTypeOpus, ClockRate: 48000, Channels: 2}, PayloadType: next()}, RTPCodecTypeAudio)
		_ = me.RegisterCodec(RTPCodecParameters{RTPCodecCapability: RTPCodecCapability{MimeType: MimeTypeH264, ClockRate: 90000, SDPFmtpLine: "level-asymmetry-allowed=1;packetization-mode=1;profile-level-id=42e01f", RTCPFeedback: fb}, PayloadType: next()}, RTPCodecTypeVideo)
		_ = me.RegisterCodec(RTPCodecParameters{RTPCodecCapability: RTPCodecCapability{MimeType: MimeTypeH264, ClockRate: 90000, SDPFmtpLine: "level-asymmetry-allowed=1;packetization-mode=0;profile-level-id=640032", RTCPFeedback: fb}, PayloadType: next()}, RTPCodecTypeVideo)
		_ = me.RegisterCodec(RTPCodecParameters{RTPCodecCapability: RTPCodecCapability{MimeType: MimeTypeVP9, ClockRate: 90000, SDPFmtpLine: "profile-id=0"}, PayloadType: next()}, RTPCodecTypeVideo)
		_ = me.RegisterCodec(RTPCodecParameters{RTPCodecCapability: RTPCodecCapability{MimeType: MimeTypeRTX, ClockRate: 90000, SDPFmtpLine: "apt=127"}, PayloadType: next()}, RTPCodecTypeVideo)
	case 5: // codecs registered without clock rate / channels (the matcher takes 0 as "the codec's default")
		_ = me.RegisterCodec(RTPCodecParameters{RTPCodecCapability: RTPCodecCapability{MimeType: MimeTypeOpus}, PayloadType: next()}, RTPCodecTypeAudio)
		_ = me.RegisterCodec(RTPCodecParameters{RTPCodecCapability: RTPCodecCapability{MimeType: MimeTypePCMU, ClockRate: 8000}, PayloadType: 0}, RTPCodecTypeAudio)
		v := next()
		_ = me.RegisterCodec(RTPCodecParameters{RTPCodecCapability: RTPCodecCapability{MimeType: MimeTypeVP8, RTCPFeedback: fb}, PayloadType: v}, RTPCodecTypeVideo)
		_ = me.RegisterCodec(RTPCodecParameters{RTPCodecCapability: RTPCodecCapability{MimeType: MimeTypeRTX, ClockRate: 90000, SDPFmtpLine: fmt.Sprintf("apt=%d", v)}, PayloadType: next()}, RTPCodecTypeVideo)
	case 4: // vp8 + rtx + flexfec, h264 + rtx
		_ = me.RegisterCodec(RTPCodecParameters{RTPCodecCapability: RTPCodecCapability{MimeType: MimeTypeOpus, ClockRate: 48000, Channels: 2}, PayloadType: next()}, RTPCodecTypeAudio)
		v := next()
		_ = me.RegisterCodec(RTPCodecParameters{RTPCodecCapability: RTPCodecCapability{MimeType: MimeTypeVP8, ClockRate: 90000, RTCPFeedback: fb}, PayloadType: v}, RTPCodecTypeVideo)
		_ = me.RegisterCodec(RTPCodecParameters{RTPCodecCapability: RTPCodecCapability{MimeType: MimeTypeRTX, ClockRate: 90000, SDPFmtpLine: fmt.Sprintf("apt=%d", v)}, PayloadType: next()}, RTPCodecTypeVideo)
		h := next()
		_ = me.RegisterCodec(RTPCodecParameters{RTPCodecCapability: RTPCodecCapability{MimeType: MimeTypeH264, ClockRate: 90000, SDPFmtpLine: "level-asymmetry-allowed=1;packetization-mode=1;profile-level-id=42e01f", RTCPFeedback: fb}, PayloadType: h}, RTPCodecTypeVideo)
		_ = me.RegisterCodec(RTPCodecParameters{RTPCodecCapability: RTPCodecCapability{MimeType: MimeTypeRTX, ClockRate: 90000, SDPFmtpLine: fmt.Sprintf("apt=%d", h)}, PayloadType: next()}, RTPCodecTypeVideo)
		_ = me.RegisterCodec(RTPCodecParameters{RTPCodecCapability: RTPCodecCapability{MimeType: MimeTypeFlexFEC03, ClockRate: 90000, SDPFmtpLine: "repair-window=10000000"}, PayloadType: next()}, RTPCodecTypeVideo)
	default: // audio only
		_ = me.RegisterCodec(RTPCodecParameters{RTPCodecCapability: RTPCodecCapability{MimeType: MimeTypeOpus, ClockRate: 48000, Channels: 2}, PayloadType: next()}, RTPCodecTypeAudio)
		_ = me.RegisterCodec(RTPCodecParameters{RTPCodecCapability: RTPCodecCapability{MimeType: MimeTypeVP8, ClockRate: 90000}, PayloadType: next()}, RTPCodecTypeVideo)
	}
	if r.Bool(0.6) {
		_ = me.RegisterHeaderExtension(RTPHeaderExtensionCapability{URI: "urn:ietf:params:rtp-hdrext:sdes:mid"}, RTPCodecTypeVideo)
		_ = me.RegisterHeaderExtension(RTPHeaderExtensionCapability{URI: "urn:ietf:params:rtp-hdrext:sdes:mid"}, RTPCodecTypeAudio)
	}
	if r.Bool(0.5) {
		_ = me.RegisterHeaderExtension(RTPHeaderExtensionCapability{URI: "http://www.webrtc.org/experiments/rtp-hdrext/abs-send-time"}, RTPCodecTypeVideo, RTPTransceiverDirectionSendonly)
	}
	if r.Bool(0.5) {
		_ = me.RegisterHeaderExtension(RTPHeaderExtensionCapability{URI: "urn:ietf:params:rtp-hdrext:ssrc-audio-level"}, RTPCodecTypeAudio, RTPTransceiverDirectionRecvonly)
	}
	if r.Bool(0.3) {
		// one URI registered twice for one kind, with different direction restrictions
		uri := "http://www.ietf.org/id/draft-holmer-rmcat-transport-wide-cc-extensions-01"
		kind := []RTPCodecType{RTPCodecTypeVideo, RTPCodecTypeAudio}[r.Intn(2)]
		_ = me.RegisterHeaderExtension(RTPHeaderExtensionCapability{URI: uri}, kind, RTPTransceiverDirectionRecvonly)
		_ = me.RegisterHeaderExtension(RTPHeaderExtensionCapability{URI: uri}, kind, RTPTransceiverDirectionSendonly)
	}
}

var sgDirs = []RTPTransceiverDirection{RTPTransceiverDirectionSendrecv, RTPTransceiverDirectionSendonly, RTPTransceiverDirectionRecvonly, RTPTransceiverDirectionInactive}

func (r *sgRun) newTrack(ps *sgPeerState, kind int) TrackLocal {
	n := len(ps.tracks)
	var cap RTPCodecCapability
	if kind == 0 {
		cap = RTPCodecCapability{MimeType: MimeTypeOpus, ClockRate: 48000, Channels: 2}
	} else {
		cap = RTPCodecCapability{MimeType: MimeTypeVP8, ClockRate: 90000}
		if ps.cfg.Codecs == 2 {
			cap = RTPCodecCapability{MimeType: MimeTypeH264, ClockRate: 90000, SDPFmtpLine: "level-asymmetry-allowed=1;packetization-mode=1;profile-level-id=42e01f"}
		}
	}
	t, _ := NewTrackLocalStaticSample(cap, fmt.Sprintf("trk-%s-%d", ps.p.name, n), fmt.Sprintf("strm-%s-%d", ps.p.name, n%2))
	ps.tracks = append(ps.tracks, t)
	return t
}

func sgTypeOf(n int) SDPType {
	return []SDPType{SDPTypeOffer, SDPTypePranswer, SDPTypeAnswer, SDPTypeRollback}[n&3]
}

// exec runs one operation and records it.
func (r *sgRun) exec(i int, op sgOp) {
	if op.Peer < 0 || op.Peer > 1 {
		return
	}
	ps := r.peers[op.Peer]
	pc := ps.p.pc
	rec := &sgRec{Idx: len(r.recs), Op: op, Kind: "other", Pre: r.snap(op.Peer)}
	var err error
	skip := false
	switch op.Kind {
	case "offer":
		rec.Kind = "create-offer"
		if st := pc.SignalingState(); st != SignalingStateStable && st != SignalingStateHaveLocalOffer {
			// W3C createOffer is only defined in stable and have-local-offer; what pion returns in
			// the other states cannot be applied and is outside every property's quantifier
			skip = true
			break
		}
		var d SessionDescription
		d, err = pc.CreateOffer(nil)
		if err == nil {
			ps.created = append(ps.created, d)
			rec.Desc = &d
			rec.Type = "offer"
		}
	case "answer":
		rec.Kind = "create-answer"
		var d SessionDescription
		d, err = pc.CreateAnswer(nil)
		if err == nil {
			ps.created = append(ps.created, d)
			rec.Desc = &d
			rec.Type = "answer"
		}
	case "setlocal":
		// A: type selector (-1 = type of the last created description), B: source 0 last created, 1 empty SDP, 2 stale, 3 garbage
		rec.Kind, rec.Side = "setlocal", "local"
		var d SessionDescription
		if len(ps.created) > 0 {
			d = ps.created[len(ps.created)-1]
		}
		if op.B == 2 && len(ps.created) > 1 {
			d = ps.created[r.pick(op, len(ps.created)-1)]
			rec.Note = "stale"
		}
		if op.A >= 0 {
			d.Type = sgTypeOf(op.A)
		}
		if len(ps.created) == 0 && op.B != 3 && !(op.A == 3) {
			// nothing was created yet: an offer/answer with no text is outside the quantifier
			// ("a description pion generated itself or a valid foreign one"); rollbacks are kept
			skip = true
			break
		}
		if op.B == 1 || len(ps.created) == 0 {
			d.SDP = ""
			rec.EmptySDP = true
			// JSEP 5.4: an empty offer/answer means "the last created one"
			for k := len(ps.created) - 1; k >= 0 && d.Type != SDPTypeRollback; k-- {
				isOffer := ps.created[k].Type == SDPTypeOffer
				if (d.Type == SDPTypeOffer) == isOffer {
					sub := ps.created[k]
					sub.Type = d.Type
					rec.Implied = &sub
					break
				}
			}
		}
		if op.B == 3 {
			d.SDP = "v=0\r\nthis is not sdp\r\n"
			rec.Tamper = "unparsable"
		}
		if d.Type == SDPTypeUnknown {
			d.Type = SDPTypeOffer
		}
		rec.Type = d.Type.String()
		dd := d
		rec.Desc = &dd
		err = pc.SetLocalDescription(d)
		if err == nil && d.Type != SDPTypeRollback {
			r.drain()
			if full := vfGatherDone(ps.p); full != nil {
				r.serial++
				r.peers[1-op.Peer].inbox = append(r.peers[1-op.Peer].inbox, sgMsg{Desc: *full, From: op.Peer, Serial: r.serial})
			}
		}
	case "deliver":
		// A: which inbox entry, B: 0 consume 1 keep (duplicate delivery later), S: tamper class
		rec.Kind, rec.Side = "setremote", "remote"
		if len(ps.inbox) == 0 || ps.partner == "foreign" {
			skip = true
			break
		}
		ps.partner = "pion"
		k := op.A % len(ps.inbox)
		if k < 0 {
			k = -k
		}
		if op.A == 1<<20 {
			k = len(ps.inbox) - 1 // the newest entry
		}
		m := ps.inbox[k]
		if op.B != 1 {
			ps.inbox = append(ps.inbox[:k], ps.inbox[k+1:]...)
		} else {
			rec.Note = "duplicate-kept"
		}
		d := m.Desc
		if op.S != "" {
			d.SDP = sgTamper(d.SDP, op.S, vfNewRand(r.c.GenSeed, fmt.Sprint("t", i)))
			rec.Tamper = op.S
		}
		rec.Type = d.Type.String()
		rec.Desc = &d
		err = pc.SetRemoteDescription(d)
		if err == nil && d.Type == SDPTypeOffer {
			dd := d
			ps.lastOffer = &dd
		}
	case "drop":
		if len(ps.inbox) > 0 {
			ps.inbox = ps.inbox[1:]
		}
		skip = true
	case "remote-raw":
		// A: type, B: 1 = empty SDP else the peer's own last local description text (nonsense but parsable)
		rec.Kind, rec.Side = "setremote", "remote"
		d := SessionDescription{Type: sgTypeOf(op.A)}
		if ps.partner == "foreign" && d.Type != SDPTypeRollback && op.B != 2 {
			skip = true
			break
		}
		if op.B == 2 {
			d.SDP = "v=0\r\nthis is not sdp\r\n"
			rec.Tamper = "unparsable"
		} else if op.B != 1 {
			if ld := r.peers[1-op.Peer].p.pc.LocalDescription(); ld != nil {
				d.SDP = ld.SDP
			} else if ld := pc.LocalDescription(); ld != nil {
				d.SDP = ld.SDP
			}
		}
		rec.EmptySDP = d.SDP == ""
		rec.Type = d.Type.String()
		rec.Desc = &d
		err = pc.SetRemoteDescription(d)
		if err == nil && d.Type == SDPTypeOffer {
			dd := d
			ps.lastOffer = &dd
		}
	case "foreign-offer":
		rec.Kind, rec.Side, rec.Foreign = "setremote", "remote", true
		if ps.partner == "pion" {
			skip = true
			break
		}
		ps.partner = "foreign"
		if ps.foreign == nil {
			ps.foreign = sgNewForeignSession(vfNewRand(r.c.GenSeed, fmt.Sprint("fs", op.Peer)))
		}
		sdp := sgForeignOffer(vfNewRand(r.c.GenSeed, fmt.Sprint("fo", i)), op.A, op.S, ps.foreign)
		d := SessionDescription{Type: SDPTypeOffer, SDP: sdp}
		rec.Type = "offer"
		rec.Desc = &d
		rec.Tamper = op.S
		err = pc.SetRemoteDescription(d)
		if err == nil {
			dd := d
			ps.lastOffer = &dd
		}
	case "foreign-answer":
		rec.Kind, rec.Side, rec.Foreign = "setremote", "remote", true
		ld := pc.PendingLocalDescription()
		if ld == nil {
			ld = pc.LocalDescription()
		}
		if ld == nil || ps.partner == "pion" {
			skip = true
			break
		}
		ps.partner = "foreign"
		if ps.foreign == nil {
			ps.foreign = sgNewForeignSession(vfNewRand(r.c.GenSeed, fmt.Sprint("fs", op.Peer)))
		}
		sdp := sgForeignAnswer(vfNewRand(r.c.GenSeed, fmt.Sprint("fa", i)), ld.SDP, op.A, ps.foreign)
		t := SDPTypeAnswer
		if op.B == 1 {
			t = SDPTypePranswer
		}
		d := SessionDescription{Type: t, SDP: sdp}
		rec.Type = t.String()
		rec.Desc = &d
		err = pc.SetRemoteDescription(d)
	case "addtrack":
		rec.Kind = "media"
		var s *RTPSender
		before := len(pc.GetTransceivers())
		s, err = pc.AddTrack(r.newTrack(ps, op.A&1))
		if err == nil {
			ps.senders = append(ps.senders, s)
			if len(pc.GetTransceivers()) > before {
				ps.changes = append(ps.changes, sgChange{rec.Idx, "addtrack-new-transceiver"})
			} else if cl := pc.CurrentLocalDescription(); cl != nil && pc.SignalingState() == SignalingStateStable {
				// the track went onto an existing transceiver: if that one is negotiated as not sending
				// (its section of the current local description says recvonly/inactive) the session has
				// to be renegotiated before anything can be sent
				for _, t := range pc.GetTransceivers() {
					if t.Sender() != s || t.Mid() == "" {
						continue
					}
					for _, sec := range vfParseSDP(cl.SDP).Sections {
						if m, ok := sec.Mid(); ok && m == t.Mid() && sec.Port != 0 && (vfAttrHas(sec.Attrs, "recvonly") || vfAttrHas(sec.Attrs, "inactive")) {
							ps.changes = append(ps.changes, sgChange{rec.Idx, "addtrack-on-negotiated-receive-only-transceiver"})
						}
					}
				}
			}
		}
	case "addsimulcast":
		// a sender with several encodings: a track with a rid, further layers through AddEncoding
		rec.Kind = "media"
		n := len(ps.tracks)
		cap := RTPCodecCapability{MimeType: MimeTypeVP8, ClockRate: 90000}
		if ps.cfg.Codecs == 2 {
			cap = RTPCodecCapability{MimeType: MimeTypeH264, ClockRate: 90000, SDPFmtpLine: "level-asymmetry-allowed=1;packetization-mode=1;profile-level-id=42e01f"}
		}
		layer := func(rid string) *TrackLocalStaticRTP {
			t, _ := NewTrackLocalStaticRTP(cap, fmt.Sprintf("trk-%s-%d", ps.p.name, n), fmt.Sprintf("strm-%s-%d", ps.p.name, n%2), WithRTPStreamID(rid))
			return t
		}
		first := layer("q")
		ps.tracks = append(ps.tracks, first)
		var s *RTPSender
		if op.A&1 == 0 {
			s, err = pc.AddTrack(first)
		} else {
			var t *RTPTransceiver
			if t, err = pc.AddTransceiverFromTrack(first, RTPTransceiverInit{Direction: RTPTransceiverDirectionSendonly}); err == nil {
				s = t.Sender()
			}
		}
		if err == nil {
			ps.senders = append(ps.senders, s)
			ps.changes = append(ps.changes, sgChange{rec.Idx, "addsimulcast"})
			for _, rid := range []string{"h", "f"}[:1+op.B&1] {
				if e := s.AddEncoding(layer(rid)); e != nil {
					err = e
				}
			}
		}
	case "removetrack":
		rec.Kind = "media"
		if len(ps.senders) == 0 {
			skip = true
			break
		}
		err = pc.RemoveTrack(ps.senders[r.pick(op, len(ps.senders))])
	case "addtransceiver":
		rec.Kind = "media"
		kind := RTPCodecTypeAudio
		if op.A&1 == 1 {
			kind = RTPCodecTypeVideo
		}
		_, err = pc.AddTransceiverFromKind(kind, RTPTransceiverInit{Direction: sgDirs[op.B&3]})
		if err == nil {
			ps.changes = append(ps.changes, sgChange{rec.Idx, "addtransceiver"})
		}
	case "addtransceivertrack":
		rec.Kind = "media"
		dir := []RTPTransceiverDirection{RTPTransceiverDirectionSendrecv, RTPTransceiverDirectionSendonly}[op.B&1]
		_, err = pc.AddTransceiverFromTrack(r.newTrack(ps, op.A&1), RTPTransceiverInit{Direction: dir})
		if err == nil {
			ps.changes = append(ps.changes, sgChange{rec.Idx, "addtransceiverfromtrack"})
		}
	case "stop":
		rec.Kind = "media"
		trs := pc.GetTransceivers()
		if len(trs) == 0 {
			skip = true
			break
		}
		err = trs[r.pick(op, len(trs))].Stop()
	case "replacetrack":
		rec.Kind = "media"
		if len(ps.senders) == 0 {
			skip = true
			break
		}
		s := ps.senders[r.pick(op, len(ps.senders))]
		kind := 0
		if s.kind == RTPCodecTypeVideo {
			kind = 1
		}
		var nt TrackLocal
		if op.B&1 != 1 {
			nt = r.newTrack(ps, kind)
		}
		err = s.ReplaceTrack(nt)
		if err == nil {
			// the model of "the track this sender sends" is the last successful ReplaceTrack argument,
			// not whatever the sender reports
			if ps.trackOf == nil {
				ps.trackOf = map[*RTPSender]TrackLocal{}
			}
			ps.trackOf[s] = nt
			ps.trackSet = append(ps.trackSet, s)
		}
	case "codecprefs":
		rec.Kind = "media"
		trs := pc.GetTransceivers()
		if len(trs) == 0 {
			skip = true
			break
		}
		tr := trs[r.pick(op, len(trs))]
		var all []RTPCodecParameters
		if tr.Kind() == RTPCodecTypeAudio {
			all = ps.p.api.mediaEngine.getCodecsByKind(RTPCodecTypeAudio)
		} else {
			all = ps.p.api.mediaEngine.getCodecsByKind(RTPCodecTypeVideo)
		}
		rr := vfNewRand(r.c.GenSeed, fmt.Sprint("cp", i))
		var sel []RTPCodecParameters
		if op.B&2 != 0 {
			sel = append(sel, all...) // everything, in registration order (codec + RTX pairs stay together)
		} else {
			for _, k := range rr.perm(len(all)) {
				if rr.Bool(0.6) {
					sel = append(sel, all[k])
				}
			}
		}
		for k := range sel {
			// (an application names complete codecs in its preferences, also when the engine was given
			// codecs without clock rate / channels)
			if sel[k].ClockRate == 0 {
				switch {
				case strings.EqualFold(sel[k].MimeType, MimeTypeOpus):
					sel[k].ClockRate, sel[k].Channels = 48000, 2
				case strings.HasPrefix(strings.ToLower(sel[k].MimeType), "video/"):
					sel[k].ClockRate = 90000
				}
			}
		}
		if op.B&1 != 0 {
			for k := range sel {
				sel[k].PayloadType = 0 // "whatever gets negotiated"
			}
		}
		err = tr.SetCodecPreferences(sel)
		if err == nil {
			ps.anyPrefs = true // (an empty list resets the transceiver to the connection-wide codec list)
		}
		if err == nil && op.B&1 == 0 && len(sel) > 0 {
			ps.explicitPrefs = true
		}
	case "createdc":
		rec.Kind = "media"
		negotiatedApp := false // an application section is already part of the negotiated session
		for _, cl := range []*SessionDescription{pc.CurrentLocalDescription(), pc.PendingLocalDescription()} {
			if cl == nil {
				continue
			}
			for _, sec := range vfParseSDP(cl.SDP).Sections {
				if sec.Kind == "application" && sec.Port != 0 {
					negotiatedApp = true
				}
			}
		}
		_, err = pc.CreateDataChannel(fmt.Sprintf("dc-%d", ps.dcs), nil)
		if err == nil {
			ps.dcs++
			if ps.dcs == 1 && !negotiatedApp {
				ps.changes = append(ps.changes, sgChange{rec.Idx, "first-datachannel"})
			}
		}
	case "setconfig":
		rec.Kind = "setconfig"
		c39Exec(r, ps, rec, op, i)
		err = nil
		if rec.Err != "" {
			err = errors.New(rec.Err)
		}
	case "close":
		rec.Kind = "close"
		err = pc.Close()
		ps.closed = true
	case "wait":
		vfSettle(time.Duration(op.A%3000) * time.Millisecond)
		skip = true
	default:
		skip = true
	}
	if skip {
		return
	}
	if err != nil {
		if rec.Err == "" {
			rec.Err = err.Error()
		}
		rec.ErrKind = sgErrKind(err)
	}
	rec.Undrained = !r.drain()
	rec.Post = r.snap(op.Peer)
	r.recs = append(r.recs, rec)
	r.lines = append(r.lines, fmt.Sprintf("%d p%d %s type=%s tamper=%s empty=%v err=%q %s -> %s", rec.Idx, op.Peer, op.Kind, rec.Type, rec.Tamper, rec.EmptySDP, rec.Err, rec.Pre.State, rec.Post.State))
	sgMonitorGenerated(r, ps, rec)
	// answers created by the application's signaling-state handler while this operation ran
	ps.p.mu.Lock()
	ha := ps.handlerAns
	ps.handlerAns = nil
	ps.p.mu.Unlock()
	for k := range ha {
		d := ha[k]
		ps.created = append(ps.created, d)
		hrec := &sgRec{Idx: rec.Idx, Op: sgOp{Kind: "answer-in-handler", Peer: op.Peer}, Kind: "create-answer", Type: "answer", Desc: &d, Pre: rec.Post, Post: rec.Post}
		r.lines = append(r.lines, fmt.Sprintf("%d p%d answer-in-handler", rec.Idx, op.Peer))
		sgMonitorGenerated(r, ps, hrec)
	}
}

func (r *sgRun) pick(op sgOp, n int) int {
	if n <= 0 {
		return 0
	}
	k := op.A % n
	if k < 0 {
		k += n
	}
	return k
}

// sgTamper applies one mutation class to an SDP text.
func sgTamper(sdp, class string, rr *vfRand) string {
	lines := strings.Split(strings.TrimRight(sdp, "\r\n"), "\r\n")
	drop := func(prefix string, all bool) {
		var out []string
		done := false
		for _, l := range lines {
			if strings.HasPrefix(l, prefix) && (all || !done) {
				done = true
				continue
			}
			out = append(out, l)
		}
		lines = out
	}
	switch class {
	case "no-mid":
		drop("a=mid:", false)
	case "no-ufrag":
		drop("a=ice-ufrag:", true)
	case "no-pwd":
		drop("a=ice-pwd:", true)
	case "no-fingerprint":
		drop("a=fingerprint:", true)
	case "corrupt-line":
		k := rr.Intn(len(lines))
		lines[k] = "x" + lines[k]
	case "bad-fingerprint-hash":
		for i, l := range lines {
			if strings.HasPrefix(l, "a=fingerprint:") {
				lines[i] = strings.Replace(l, "sha-256", "sha-999", 1)
			}
		}
	case "unknown-codec-only":
		for i, l := range lines {
			if strings.HasPrefix(l, "m=video") || strings.HasPrefix(l, "m=audio") {
				f := strings.Fields(l)
				lines[i] = strings.Join(append(f[:3], "35"), " ")
			}
		}
	case "dup-mid":
		first := ""
		for i, l := range lines {
			if strings.HasPrefix(l, "a=mid:") {
				if first == "" {
					first = l
				} else {
					lines[i] = first
				}
			}
		}
	}
	return strings.Join(lines, "\r\n") + "\r\n"
}

func sgRunCase(t *testing.T, cj []byte, res *vfResult, prop string) {
	var c sgCase
	if err := json.Unmarshal(cj, &c); err != nil {
		res.Verdict, res.Detail = "error", err.Error()
		return
	}
	c.Prop = prop
	r := &sgRun{c: &c, res: res, rnd: vfNewRand(c.GenSeed, "run")}
	vfBubble(t, func(t *testing.T) {
		t0 := time.Now()
		nw, err := vfNewNetSim(c.GenSeed, vfNetCfg{BaseDelayUs: 2000})
		if err != nil {
			res.Verdict, res.Detail = "error", err.Error()
			return
		}
		r.nw = nw
		for i := 0; i < 2; i++ {
			hn, _ := nw.addHost(fmt.Sprintf("10.0.%d.2", i+1))
			p, err := vfNewPeer([]string{"A", "B"}[i], hn, sgPeerOpts(c.Peers[i]))
			if err != nil {
				res.Verdict, res.Detail = "error", "NewPeerConnection: "+err.Error()
				return
			}
			ps := &sgPeerState{p: p, cfg: c.Peers[i]}
			r.peers[i] = ps
			if c.Peers[i].HandlerAns {
				// replaces the default recorder of vfNewPeer: count the event, then answer from the handler
				p.pc.OnSignalingStateChange(func(s SignalingState) {
					p.mu.Lock()
					p.sigStates = append(p.sigStates, s.String())
					p.mu.Unlock()
					if s == SignalingStateHaveRemoteOffer {
						if d, err := p.pc.CreateAnswer(nil); err == nil {
							p.mu.Lock()
							ps.handlerAns = append(ps.handlerAns, d)
							p.mu.Unlock()
						}
					}
				})
			}
		}
		_ = nw.Start()
		defer func() {
			for _, ps := range r.peers {
				_ = ps.p.pc.Close()
			}
			nw.Stop()
			res.SimNs = int64(time.Since(t0))
		}()
		for i, op := range c.Ops {
			r.exec(i, op)
			if res.Verdict == "error" {
				return
			}
		}
		r.drain()
		for pi, ps := range r.peers {
			pc := ps.p.pc
			var fires []string
			ps.p.snapshot(func() { fires = append(fires, ps.p.negNeeded...) })
			r.lines = append(r.lines, fmt.Sprintf("end p%d: state=%s conn=%s negotiationneeded fires=%v flag=%v onEmptyChain=%v opsEmpty=%v stillNeeded=%v", pi, pc.SignalingState(), pc.ConnectionState(),
				fires, pc.isNegotiationNeeded.Load(), pc.updateNegotiationNeededFlagOnEmptyChain.Load(), pc.ops.IsEmpty(), !pc.isClosed.Load() && pc.checkNegotiationNeeded()))
		}
		sgOracles(r)
	})
	res.Log = r.lines
	res.Sig = vfSig(r.lines)
	res.Steps = len(r.recs)
}
