//go:build !js

package webrtc

// Generators (workload bias per property), the C39 SetConfiguration operation, and the
// registration of every property decided by the sigsim engine.

import (
	"crypto/ecdsa"
	"crypto/elliptic"
	"crypto/rand"
	"fmt"
	"reflect"
	"sort"
	"strings"
	"testing"
)

// ---------------------------------------------------------------- C39

type c39View struct {
	Servers   []ICEServer
	Policy    ICETransportPolicy
	Bundle    BundlePolicy
	RTCPMux   RTCPMuxPolicy
	Identity  string
	CertFPs   []string
	Pool      uint8
	Semantics SDPSemantics
	AlwaysDC  bool
}

func c39ViewOf(c Configuration) c39View {
	// (a deep copy: the slice GetConfiguration returns may share its backing array with the live configuration)
	var servers []ICEServer
	for _, sv := range c.ICEServers {
		sv.URLs = append([]string{}, sv.URLs...)
		servers = append(servers, sv)
	}
	v := c39View{Servers: servers, Policy: c.ICETransportPolicy, Bundle: c.BundlePolicy, RTCPMux: c.RTCPMuxPolicy,
		Identity: c.PeerIdentity, Pool: c.ICECandidatePoolSize, Semantics: c.SDPSemantics, AlwaysDC: c.AlwaysNegotiateDataChannels}
	for _, ct := range c.Certificates {
		fps, _ := ct.GetFingerprints()
		for _, f := range fps {
			v.CertFPs = append(v.CertFPs, f.Algorithm+" "+f.Value)
		}
	}
	return v
}

const (
	c39Identity = 1 << iota
	c39Certs
	c39Bundle
	c39RTCPMux
	c39Pool
	c39BadServer
	c39GoodServers
	c39Relay
	c39AlwaysDC
	c39SameIdentity
	c39SameBundle
	c39SameCerts
	c39SamePool
)

func c39Exec(r *sgRun, ps *sgPeerState, rec *sgRec, op sgOp, i int) {
	pc := ps.p.pc
	before := pc.GetConfiguration()
	bv := c39ViewOf(before)
	hadLocal := pc.LocalDescription() != nil
	closed := pc.isClosed.Load()
	m := op.A
	var nc Configuration
	mustReject := ""
	if m&c39Identity != 0 {
		nc.PeerIdentity = before.PeerIdentity + "x-other"
		mustReject = "peer identity"
	} else if m&c39SameIdentity != 0 {
		nc.PeerIdentity = before.PeerIdentity
	}
	if m&c39Certs != 0 {
		if sk, err := ecdsa.GenerateKey(elliptic.P256(), rand.Reader); err == nil {
			if ct, err := GenerateCertificate(sk); err == nil {
				nc.Certificates = []Certificate{*ct}
				mustReject = "certificates"
			}
		}
	} else if m&c39SameCerts != 0 {
		nc.Certificates = before.Certificates
		if (m>>13)&3 == 3 && len(before.Certificates) > 0 {
			// the existing certificates with another one appended: a change as well
			if sk, err := ecdsa.GenerateKey(elliptic.P256(), rand.Reader); err == nil {
				if ct, err := GenerateCertificate(sk); err == nil {
					nc.Certificates = append(append([]Certificate{}, before.Certificates...), *ct)
					mustReject = "certificates"
				}
			}
		} else if len(before.Certificates) > 1 {
			// with several certificates: a strict prefix, a reordering — both are changes
			switch (m >> 13) & 3 {
			case 1:
				nc.Certificates = before.Certificates[:1]
				mustReject = "certificates"
			case 2:
				nc.Certificates = []Certificate{before.Certificates[1], before.Certificates[0]}
				mustReject = "certificates"
			}
		}
	}
	if m&c39Bundle != 0 {
		nc.BundlePolicy = BundlePolicy(1 + (int(before.BundlePolicy))%3)
		if nc.BundlePolicy == before.BundlePolicy {
			nc.BundlePolicy = BundlePolicy(1 + (int(before.BundlePolicy)+1)%3)
		}
		mustReject = "bundle policy"
	} else if m&c39SameBundle != 0 {
		nc.BundlePolicy = before.BundlePolicy
	}
	if m&c39RTCPMux != 0 {
		nc.RTCPMuxPolicy = RTCPMuxPolicyNegotiate
		if before.RTCPMuxPolicy == RTCPMuxPolicyNegotiate {
			nc.RTCPMuxPolicy = RTCPMuxPolicyRequire
		}
		mustReject = "rtcp mux policy"
	}
	if m&c39Pool != 0 {
		nc.ICECandidatePoolSize = before.ICECandidatePoolSize + 1
		if hadLocal {
			mustReject = "candidate pool size after a local description exists"
		}
	} else if m&c39SamePool != 0 {
		nc.ICECandidatePoolSize = before.ICECandidatePoolSize
	}
	badServer := false
	if m&c39GoodServers != 0 {
		// (a different valid server from call to call; sometimes two)
		nc.ICEServers = append(nc.ICEServers, ICEServer{URLs: []string{fmt.Sprintf("stun:stun%d.example.org:3478", i%3)}})
		if i%2 == 1 {
			nc.ICEServers = append(nc.ICEServers, ICEServer{URLs: []string{fmt.Sprintf("stun:alt%d.example.org:3478", i%5)}})
		}
	}
	if m&c39BadServer != 0 {
		nc.ICEServers = append(nc.ICEServers, ICEServer{URLs: []string{vfPick(vfNewRand(r.c.GenSeed, fmt.Sprint("srv", i)), []string{"turn:turn.example.org:3478", "bogus:host", "turn:"})}})
		badServer = true // turn without credentials / unknown scheme / empty host
	}
	if m&c39Relay != 0 {
		nc.ICETransportPolicy = ICETransportPolicyRelay
	}
	if m&c39AlwaysDC != 0 {
		nc.AlwaysNegotiateDataChannels = true
	}
	err := pc.SetConfiguration(nc)
	after := c39ViewOf(pc.GetConfiguration())
	rec.Note = fmt.Sprintf("mask=%d hadLocal=%v closed=%v", m, hadLocal, closed)
	if err != nil {
		rec.Err = err.Error()
		rec.ErrKind = sgErrKind(err)
		if !reflect.DeepEqual(bv, after) {
			r.viol("C39", "configuration-changed-by-rejected-call", fmt.Sprintf("peer %d op %d: SetConfiguration returned %q but GetConfiguration changed from %+v to %+v", op.Peer, rec.Idx, err, bv, after))
		}
	}
	switch {
	case closed:
		if err == nil || sgErrKind(err) != "InvalidState" {
			r.viol("C39", "setconfiguration-after-close-not-invalidstate", fmt.Sprintf("peer %d op %d: SetConfiguration on a closed connection returned %v", op.Peer, rec.Idx, err))
		}
	case mustReject != "":
		if err == nil {
			r.viol("C39", "immutable-setting-change-accepted:"+strings.ReplaceAll(mustReject, " ", "-"), fmt.Sprintf("peer %d op %d: changing %s was accepted; configuration now %+v", op.Peer, rec.Idx, mustReject, after))
		} else if sgErrKind(err) != "InvalidModification" {
			r.viol("C39", "immutable-setting-change-wrong-error:"+strings.ReplaceAll(mustReject, " ", "-"), fmt.Sprintf("peer %d op %d: changing %s returned %T %q, want InvalidModificationError", op.Peer, rec.Idx, mustReject, err, err))
		}
	case badServer:
		if err == nil {
			r.viol("C39", "invalid-ice-server-accepted", fmt.Sprintf("peer %d op %d: %+v accepted", op.Peer, rec.Idx, nc.ICEServers))
		}
	}
	if bv.Bundle != after.Bundle || bv.RTCPMux != after.RTCPMux || bv.Identity != after.Identity || !reflect.DeepEqual(bv.CertFPs, after.CertFPs) {
		r.viol("C39", "immutable-setting-changed", fmt.Sprintf("peer %d op %d: immutable settings changed from %+v to %+v (error %v)", op.Peer, rec.Idx, bv, after, err))
	}
	if hadLocal && bv.Pool != after.Pool {
		r.viol("C39", "pool-size-changed-after-local-description", fmt.Sprintf("peer %d op %d: pool size %d -> %d", op.Peer, rec.Idx, bv.Pool, after.Pool))
	}
}

// ---------------------------------------------------------------- generators

func sgGenPeerCfg(r *vfRand, prop string) sgPeerCfg {
	c := sgPeerCfg{CodecSeed: r.U64()}
	if r.Bool(0.3) {
		c.Codecs = r.Range(1, 3)
	}
	switch prop {
	case "C06":
		c.Semantics = vfPick(r, []int{0, 0, 0, 1, 2})
		c.Bundle = r.Intn(4)
		c.AlwaysDC = r.Bool(0.3)
		c.MediaFP = r.Bool(0.3)
	case "C10":
		c.Codecs = r.Intn(4)
	case "C16":
		c.Codecs = vfPick(r, []int{0, 1, 2, 3, 5})
	case "C12":
		c.AlwaysDC = r.Bool(0.25)
		c.Codecs = vfPick(r, []int{0, 0, 1, 2, 4, 4})
	case "C39":
		c.Bundle = r.Intn(4)
		c.RTCPMux = r.Intn(3)
		c.PoolSize = r.Intn(2)
		c.TwoCerts = r.Bool(0.4)
	case "C07":
		c.HandlerAns = r.Bool(0.3)
	default:
		c.MediaFP = r.Bool(0.2)
		c.AlwaysDC = r.Bool(0.15)
	}
	return c
}

// sgExchange appends a complete offer/answer exchange from peer a to the other peer.
func sgExchange(ops []sgOp, a int) []sgOp {
	b := 1 - a
	return append(ops, sgOp{Kind: "offer", Peer: a}, sgOp{Kind: "setlocal", Peer: a, A: -1}, sgOp{Kind: "deliver", Peer: b},
		sgOp{Kind: "answer", Peer: b}, sgOp{Kind: "setlocal", Peer: b, A: -1}, sgOp{Kind: "deliver", Peer: a})
}

func sgGenMedia(r *vfRand, p int) sgOp {
	switch x := r.Intn(20); {
	case x < 5:
		return sgOp{Kind: "addtrack", Peer: p, A: r.Intn(2)}
	case x < 9:
		return sgOp{Kind: "addtransceiver", Peer: p, A: r.Intn(2), B: r.Intn(4)}
	case x < 11:
		return sgOp{Kind: "addtransceivertrack", Peer: p, A: r.Intn(2), B: r.Intn(2)}
	case x < 13:
		return sgOp{Kind: "removetrack", Peer: p, A: r.Intn(8)}
	case x < 15:
		return sgOp{Kind: "createdc", Peer: p}
	case x < 16:
		return sgOp{Kind: "stop", Peer: p, A: r.Intn(8)}
	case x < 18:
		return sgOp{Kind: "replacetrack", Peer: p, A: r.Intn(8), B: r.Intn(2)}
	default:
		return sgOp{Kind: "codecprefs", Peer: p, A: r.Intn(8), B: r.Intn(4)}
	}
}

var sgTamperClasses = []string{"no-mid", "no-ufrag", "no-pwd", "no-fingerprint", "corrupt-line", "bad-fingerprint-hash", "unknown-codec-only", "dup-mid"}

func sgGenFor(prop string) func(seed uint64, idx, total int, tier string) any {
	return func(seed uint64, idx, total int, tier string) any {
		r := vfNewRand(seed, "sg"+prop)
		c := &sgCase{Prop: prop, GenSeed: r.U64()}
		c.Peers[0], c.Peers[1] = sgGenPeerCfg(r, prop), sgGenPeerCfg(r, prop)
		var ops []sgOp
		anyDesc := func(p int) sgOp { // a random description-level call
			switch x := r.Intn(14); {
			case x < 3:
				return sgOp{Kind: "offer", Peer: p}
			case x < 5:
				return sgOp{Kind: "answer", Peer: p}
			case x < 9:
				o := sgOp{Kind: "setlocal", Peer: p, A: -1}
				if r.Bool(0.35) {
					o.A = r.Intn(4)
				}
				if r.Bool(0.15) {
					o.B = r.Range(1, 3)
				}
				return o
			case x < 12:
				o := sgOp{Kind: "deliver", Peer: p, A: r.Intn(4)}
				if r.Bool(0.2) {
					o.B = 1
				}
				return o
			case x < 13:
				return sgOp{Kind: "remote-raw", Peer: p, A: r.Intn(4), B: r.Intn(2)}
			default:
				return sgOp{Kind: "drop", Peer: p}
			}
		}
		switch prop {
		case "C01", "C02", "C03":
			if r.Bool(0.8) {
				ops = append(ops, sgGenMedia(r, 0))
			}
			if r.Bool(0.5) {
				ops = append(ops, sgGenMedia(r, 1))
			}
			n := r.Range(4, 12)
			for len(ops) < n {
				p := r.Intn(2)
				switch x := r.Intn(20); {
				case x < 4: // a well-formed step of an exchange
					ops = append(ops, sgOp{Kind: "offer", Peer: p}, sgOp{Kind: "setlocal", Peer: p, A: -1})
				case x < 7:
					ops = append(ops, sgOp{Kind: "deliver", Peer: p, A: r.Intn(3)}, sgOp{Kind: "answer", Peer: p}, sgOp{Kind: "setlocal", Peer: p, A: vfPick(r, []int{-1, -1, 1})})
				case x < 9:
					o := sgOp{Kind: "foreign-offer", Peer: p, A: r.Intn(5)}
					if prop == "C03" && r.Bool(0.5) {
						o.S = "" // flavors only; tampering of foreign offers happens through deliver
					}
					ops = append(ops, o)
				case x < 10:
					ops = append(ops, sgOp{Kind: "foreign-answer", Peer: p, A: r.Intn(8), B: r.Intn(2)})
				case x < 13 && (prop == "C02" || r.Bool(0.4)): // rollbacks on either side, with and without SDP
					if r.Bool(0.5) {
						ops = append(ops, sgOp{Kind: "setlocal", Peer: p, A: 3, B: r.Intn(2)})
					} else {
						ops = append(ops, sgOp{Kind: "remote-raw", Peer: p, A: 3, B: r.Intn(2)})
					}
				case x < 17 && prop == "C02":
					// a pending offer (local or remote) followed at once by a rollback from the matching
					// or the wrong side
					if r.Bool(0.5) {
						// (an offer created first and never applied gives the local rollback some SDP text)
						ops = append(ops, sgOp{Kind: "offer", Peer: p}, sgOp{Kind: "foreign-offer", Peer: p, A: r.Intn(5)})
					} else {
						ops = append(ops, sgOp{Kind: "offer", Peer: p}, sgOp{Kind: "setlocal", Peer: p, A: -1})
					}
					if r.Bool(0.25) {
						// a provisional answer first (only possible after a remote offer), then the rollback
						ops = append(ops, sgOp{Kind: "answer", Peer: p}, sgOp{Kind: "setlocal", Peer: p, A: 1})
					}
					if r.Bool(0.5) {
						ops = append(ops, sgOp{Kind: "setlocal", Peer: p, A: 3, B: r.Intn(2)})
					} else {
						ops = append(ops, sgOp{Kind: "remote-raw", Peer: p, A: 3, B: r.Intn(2)})
					}
				case x < 15 && prop == "C03":
					if r.Bool(0.3) {
						// text that is not SDP at all, under every description type
						ops = append(ops, sgOp{Kind: "remote-raw", Peer: p, A: r.Intn(3), B: 2})
					} else {
						ops = append(ops, sgOp{Kind: "deliver", Peer: p, A: r.Intn(3), S: vfPick(r, sgTamperClasses)})
					}
				case x < 16 && prop == "C01" && r.Bool(0.5):
					// an answerer that applies a provisional answer, then an answer arrives from either side
					q := 1 - p
					ops = append(ops, sgOp{Kind: "createdc", Peer: q}, sgOp{Kind: "offer", Peer: q}, sgOp{Kind: "setlocal", Peer: q, A: -1}, sgOp{Kind: "deliver", Peer: p},
						sgOp{Kind: "answer", Peer: p}, sgOp{Kind: "setlocal", Peer: p, A: 1})
					if r.Bool(0.5) {
						ops = append(ops, sgOp{Kind: "remote-raw", Peer: p, A: 2}) // an answer from the wrong side
					}
					ops = append(ops, sgOp{Kind: "setlocal", Peer: p, A: vfPick(r, []int{1, 2, 2})})
				case x < 18 && prop != "C02" && r.Bool(0.5):
					// a signaling channel that delivers twice: a complete exchange whose offer and answer stay
					// in the inbox, then one of them (byte for byte the current remote description) arrives again
					q := 1 - p
					ops = append(ops, sgOp{Kind: "offer", Peer: p}, sgOp{Kind: "setlocal", Peer: p, A: -1}, sgOp{Kind: "deliver", Peer: q, A: 1 << 20, B: 1},
						sgOp{Kind: "answer", Peer: q}, sgOp{Kind: "setlocal", Peer: q, A: -1}, sgOp{Kind: "deliver", Peer: p, A: 1 << 20, B: 1})
					if r.Bool(0.6) {
						ops = append(ops, sgOp{Kind: "deliver", Peer: p, A: 1 << 20, B: 1}) // the answer again
					}
					if r.Bool(0.5) {
						ops = append(ops, sgOp{Kind: "deliver", Peer: q, A: 1 << 20, B: 1}) // the offer again
					}
				case x < 17 && prop != "C02":
					// an offerer receiving provisional answers, then more of them / the final answer
					ops = append(ops, sgOp{Kind: "createdc", Peer: p}, sgOp{Kind: "offer", Peer: p}, sgOp{Kind: "setlocal", Peer: p, A: -1}, sgOp{Kind: "foreign-answer", Peer: p, A: r.Intn(8), B: 1})
					for k := r.Range(1, 2); k > 0; k-- {
						ops = append(ops, sgOp{Kind: "foreign-answer", Peer: p, A: r.Intn(8), B: r.Intn(2)})
					}
				default:
					ops = append(ops, anyDesc(p))
				}
			}
		case "C04":
			n := r.Range(3, 10)
			if r.Bool(0.15) {
				// the first data channel of a peer that always negotiates data channels, on a session
				// that was negotiated without an application section (an answer cannot add one; the
				// setting was switched on after the exchange)
				p := r.Intn(2)
				c.Peers[1-p].AlwaysDC = false
				if r.Bool(0.5) {
					c.Peers[p].AlwaysDC = true
					ops = append(ops, sgOp{Kind: "addtrack", Peer: 1 - p, A: r.Intn(2)})
					ops = sgExchange(ops, 1-p)
				} else {
					c.Peers[p].AlwaysDC = false
					ops = append(ops, sgOp{Kind: "addtrack", Peer: p, A: r.Intn(2)})
					ops = sgExchange(ops, p)
					ops = append(ops, sgOp{Kind: "setconfig", Peer: p, A: c39AlwaysDC | c39SameIdentity | c39SameBundle | c39SameCerts | c39SamePool})
				}
				ops = append(ops, sgOp{Kind: "createdc", Peer: p})
				n = len(ops) + r.Range(0, 3)
			} else if r.Bool(0.25) {
				// a sender comes back on a transceiver that has been negotiated without one
				p, k := r.Intn(2), r.Intn(2)
				if r.Bool(0.5) {
					ops = append(ops, sgOp{Kind: "addtrack", Peer: p, A: k})
					ops = sgExchange(ops, p)
					ops = append(ops, sgOp{Kind: "removetrack", Peer: p, A: 0})
				} else {
					ops = append(ops, sgOp{Kind: "addtransceiver", Peer: p, A: k, B: 2})
				}
				ops = sgExchange(ops, p)
				ops = append(ops, sgOp{Kind: "addtrack", Peer: p, A: k})
				n = len(ops) + r.Range(0, 3)
			} else if r.Bool(0.25) {
				// a change that needs negotiation, then description calls that are refused while stable
				p := r.Intn(2)
				ops = append(ops, sgOp{Kind: "offer", Peer: p}, sgGenMedia(r, p), sgOp{Kind: "offer", Peer: p})
				for k := r.Range(1, 3); k > 0; k-- {
					switch r.Intn(3) {
					case 0:
						ops = append(ops, sgOp{Kind: "setlocal", Peer: p, A: 0, B: 2}) // a stale offer
					case 1:
						ops = append(ops, sgOp{Kind: "setlocal", Peer: p, A: 2}) // an answer without an offer
					default:
						ops = append(ops, sgOp{Kind: "remote-raw", Peer: p, A: 2}) // a remote answer without an offer
					}
				}
				n = len(ops) + r.Range(0, 3)
			}
			for len(ops) < n {
				p := r.Intn(2)
				switch x := r.Intn(11); {
				case x == 10: // an offer that is created but not applied (yet)
					ops = append(ops, sgOp{Kind: "offer", Peer: p})
				case x < 5:
					ops = append(ops, sgGenMedia(r, p))
				case x < 8:
					ops = sgExchange(ops, p)
				case x < 9:
					ops = append(ops, sgOp{Kind: "offer", Peer: p}, sgOp{Kind: "setlocal", Peer: p, A: -1}, sgGenMedia(r, p))
				default:
					ops = append(ops, sgOp{Kind: "close", Peer: p})
				}
			}
		case "C39":
			n := r.Range(3, 9)
			if r.Bool(0.2) {
				// ICE servers are accepted first; a later list whose second or third entry is invalid has
				// to be refused without touching the stored ones
				p := r.Intn(2)
				same := c39SameIdentity | c39SameBundle | c39SameCerts | c39SamePool
				ops = append(ops, sgOp{Kind: "setconfig", Peer: p, A: c39GoodServers | same})
				if r.Bool(0.5) {
					ops = append(ops, sgGenMedia(r, p))
				}
				ops = append(ops, sgOp{Kind: "setconfig", Peer: p, A: c39GoodServers | c39BadServer | same})
				n = len(ops) + r.Range(0, 4)
			}
			for len(ops) < n {
				p := r.Intn(2)
				switch x := r.Intn(10); {
				case x < 6:
					m := 0
					for b := 0; b < 15; b++ {
						if r.Bool(0.18) {
							m |= 1 << b
						}
					}
					if r.Bool(0.15) {
						m = (m | c39SameCerts | 3<<13) &^ c39Certs // the certificate list with one more appended
					}
					ops = append(ops, sgOp{Kind: "setconfig", Peer: p, A: m})
				case x < 8:
					ops = append(ops, sgOp{Kind: "createdc", Peer: p}, sgOp{Kind: "offer", Peer: p}, sgOp{Kind: "setlocal", Peer: p, A: -1})
				case x < 9:
					ops = sgExchange(ops, p)
				default:
					ops = append(ops, sgOp{Kind: "close", Peer: p})
				}
			}
		default: // C06 C07 C08 C09 C10 C11 C12 C16: media changes interleaved with renegotiations and foreign offers
			n := r.Range(4, 14)
			if (prop == "C06" || prop == "C09") && r.Bool(0.15) {
				// a media-only session to which one renegotiation adds a transceiver and the first data channel
				p := r.Intn(2)
				q := vfPick(r, []int{p, 1 - p})
				ops = append(ops, sgOp{Kind: "addtrack", Peer: p, A: r.Intn(2)})
				ops = sgExchange(ops, p)
				ops = append(ops, sgGenMedia(r, q), sgOp{Kind: "addtransceiver", Peer: q, A: r.Intn(2), B: r.Intn(3)}, sgOp{Kind: "createdc", Peer: q})
				ops = sgExchange(ops, q)
				ops = append(ops, sgOp{Kind: "addtransceiver", Peer: q, A: r.Intn(2), B: r.Intn(3)})
				ops = sgExchange(ops, vfPick(r, []int{p, 1 - p}))
				n = len(ops) + r.Range(0, 4)
			}
			if prop == "C08" && r.Bool(0.2) {
				// both peers send, then one or both take their track away before the next exchange
				p, k := r.Intn(2), r.Intn(2)
				ops = append(ops, sgOp{Kind: "addtrack", Peer: p, A: k}, sgOp{Kind: "addtrack", Peer: 1 - p, A: k})
				ops = sgExchange(ops, p)
				if r.Bool(0.7) {
					ops = append(ops, sgOp{Kind: "removetrack", Peer: 1 - p, A: 0})
				}
				if r.Bool(0.7) {
					ops = append(ops, sgOp{Kind: "removetrack", Peer: p, A: 0})
				}
				ops = sgExchange(ops, vfPick(r, []int{p, p, 1 - p}))
				n = len(ops) + r.Range(0, 4)
			}
			if r.Bool(0.7) {
				ops = append(ops, sgGenMedia(r, 0))
			}
			if (prop == "C08" || prop == "C16" || prop == "C10") && r.Bool(0.35) {
				// a foreign session in which the local side starts sending on sections the remote created,
				// then the remote re-offers with other directions / codec subsets
				p := r.Intn(2)
				if r.Bool(0.5) {
					ops = append(ops, sgOp{Kind: "addtransceiver", Peer: p, A: r.Intn(2), B: 2}, sgOp{Kind: "codecprefs", Peer: p, A: r.Intn(4), B: r.Intn(4)})
					if r.Bool(0.5) {
						// something looks at the transceiver's codecs before the remote offer arrives: an own
						// offer that is then discarded (glare)
						ops = append(ops, sgOp{Kind: "offer", Peer: p})
					}
				}
				ops = append(ops, sgOp{Kind: "foreign-offer", Peer: p, A: r.Intn(8)}, sgOp{Kind: "addtrack", Peer: p, A: r.Intn(2)}, sgOp{Kind: "addtrack", Peer: p, A: r.Intn(2)},
					sgOp{Kind: "answer", Peer: p}, sgOp{Kind: "setlocal", Peer: p, A: -1},
					sgOp{Kind: "foreign-offer", Peer: p, A: r.Intn(8)}, sgOp{Kind: "answer", Peer: p}, sgOp{Kind: "setlocal", Peer: p, A: -1})
			}
			if (prop == "C10" || prop == "C12") && r.Bool(0.3) {
				// preferences over every codec, an answer that narrows them, then a renegotiation offer
				p := r.Intn(2)
				ops = append(ops, sgOp{Kind: "addtransceivertrack", Peer: p, A: 1}, sgOp{Kind: "codecprefs", Peer: p, A: 0, B: 2},
					sgOp{Kind: "offer", Peer: p}, sgOp{Kind: "setlocal", Peer: p, A: -1}, sgOp{Kind: "foreign-answer", Peer: p, A: r.Intn(8)},
					sgGenMedia(r, p), sgOp{Kind: "offer", Peer: p})
			}
			if (prop == "C06" || prop == "C09") && r.Bool(0.15) {
				// an established session is renegotiated to add something (its first data channel, a
				// transceiver); while that offer is pending another transceiver is added and offered
				p := r.Intn(2)
				ops = append(ops, sgOp{Kind: "addtrack", Peer: p, A: r.Intn(2)})
				ops = sgExchange(ops, p)
				if r.Bool(0.7) {
					ops = append(ops, sgOp{Kind: "createdc", Peer: p})
				} else {
					ops = append(ops, sgOp{Kind: "addtransceiver", Peer: p, A: r.Intn(2), B: r.Intn(4)})
				}
				ops = append(ops, sgOp{Kind: "offer", Peer: p}, sgOp{Kind: "setlocal", Peer: p, A: -1},
					sgOp{Kind: "addtransceiver", Peer: p, A: r.Intn(2), B: r.Intn(4)}, sgOp{Kind: "offer", Peer: p},
					sgOp{Kind: "deliver", Peer: 1 - p}, sgOp{Kind: "answer", Peer: 1 - p}, sgOp{Kind: "setlocal", Peer: 1 - p, A: -1}, sgOp{Kind: "deliver", Peer: p},
					sgOp{Kind: "offer", Peer: p})
				n = len(ops) + r.Range(0, 3)
			}
			if (prop == "C06" || prop == "C09") && r.Bool(0.35) {
				p := r.Intn(2)
				if r.Bool(0.5) {
					// answer a foreign offer with unusual mids, then add a data channel / transceiver and offer
					ops = append(ops, sgOp{Kind: "foreign-offer", Peer: p, A: r.Intn(8), S: vfPick(r, []string{"", "", "text", "text", "nodir"})}, sgOp{Kind: "answer", Peer: p}, sgOp{Kind: "setlocal", Peer: p, A: -1},
						sgOp{Kind: "createdc", Peer: p}, sgOp{Kind: "offer", Peer: p}, sgOp{Kind: "addtransceiver", Peer: p, A: r.Intn(2), B: r.Intn(4)}, sgOp{Kind: "offer", Peer: p})
				} else {
					// offer media + data, the foreign answer may reject sections (incl. the application one), then grow
					ops = append(ops, sgOp{Kind: "createdc", Peer: p}, sgOp{Kind: "addtrack", Peer: p, A: r.Intn(2)}, sgOp{Kind: "offer", Peer: p}, sgOp{Kind: "setlocal", Peer: p, A: -1},
						sgOp{Kind: "foreign-answer", Peer: p, A: vfPick(r, []int{4, 9, 3, r.Intn(20)})}, sgOp{Kind: "addtransceiver", Peer: p, A: r.Intn(2), B: r.Intn(4)}, sgOp{Kind: "offer", Peer: p})
				}
			}
			if prop == "C12" && r.Bool(0.3) {
				// a simulcast sender (two or three encodings), offered at once or after an exchange
				p := r.Intn(2)
				ops = append(ops, sgOp{Kind: "addsimulcast", Peer: p, A: r.Intn(2), B: r.Intn(2)})
				if r.Bool(0.4) {
					ops = sgExchange(ops, p)
				}
				ops = append(ops, sgOp{Kind: "offer", Peer: p})
			}
			if prop == "C12" && r.Bool(0.3) {
				p := r.Intn(2)
				ops = append(ops, sgOp{Kind: "addtrack", Peer: p, A: r.Intn(2)}, sgOp{Kind: "replacetrack", Peer: p, A: 0, B: 1}, sgOp{Kind: "replacetrack", Peer: p, A: 0, B: 0}, sgOp{Kind: "offer", Peer: p})
			}
			for len(ops) < n {
				p := r.Intn(2)
				switch x := r.Intn(20); {
				case x < 7:
					ops = append(ops, sgGenMedia(r, p))
				case x < 12:
					ops = sgExchange(ops, p)
				case x < 16:
					flavor := ""
					if prop == "C07" || prop == "C06" || prop == "C09" {
						flavor = vfPick(r, []string{"", "", "text", "nodir", "twoapp", "namedapp"})
					}
					ops = append(ops, sgOp{Kind: "foreign-offer", Peer: p, A: r.Intn(8), S: flavor})
					if r.Bool(0.35) { // the application reacts to the offer before answering
						ops = append(ops, sgGenMedia(r, p))
					}
					ops = append(ops, sgOp{Kind: "answer", Peer: p}, sgOp{Kind: "setlocal", Peer: p, A: -1})
				case x < 18:
					ops = append(ops, sgOp{Kind: "offer", Peer: p}, sgOp{Kind: "setlocal", Peer: p, A: -1}, sgOp{Kind: "foreign-answer", Peer: p, A: r.Intn(8)})
				default:
					ops = append(ops, sgOp{Kind: "offer", Peer: p})
				}
			}
		}
		c.Ops = ops
		return c
	}
}

func sgRegister(id, rule string, assumptions ...string) {
	vfRegister(&vfProp{
		ID: id, Level: "exploration", ReplayClass: "decision-exact",
		Rule: rule + " Distinct = hash of the (peer, operation, type, tamper, success, resulting state) sequence; non-trivial = the rule stated per property (>=3 signaling states visited for C01-C03, >=3 recorded operations otherwise).",
		Real: []string{"two real PeerConnections (SetLocal/SetRemoteDescription, CreateOffer/CreateAnswer, transceivers, senders, MediaEngine, SCTP/DTLS/ICE transports; instrumented locks)", "pion/sdp, ice, dtls, sctp (unmodified)"},
		Stub: []string{"signaling channel: simulator-owned mailboxes (delay, reorder, duplicate, drop, tamper)", "foreign peer: SDP text generator, never completes ICE", "network: vnet + seeded fate wrapper (fault-free here)"},
		Assumptions: append([]string{"sequential driver: each operation's queued work is drained (bounded fake time) before the next one",
			"descriptions are identified by type + o= line + m-line/mid skeleton (local getters add candidates)"}, assumptions...),
		Shrink: []string{"ops"},
		Gen:    sgGenFor(id),
		Run:    func(t *testing.T, cj []byte, res *vfResult) { sgRunCase(t, cj, res, id) },
	})
}

func init() {
	sgRegister("C01", "case = history of <=14 operations on two real PeerConnections and a foreign SDP generator: CreateOffer/CreateAnswer, SetLocalDescription (offer/pranswer/answer/rollback; last created, empty, stale or garbage SDP), delivery of in-flight descriptions (reordered, duplicated, dropped), raw remote descriptions of arbitrary type, valid foreign offers/answers; oracle = executable JSEP/W3C state machine with the four description slots.",
		"the property is read as 'only if': a rejected legal edge is not a violation")
	sgRegister("C02", "case = as C01, biased so that rollbacks on either side, with and without SDP text, follow every kind of state; oracle = rollback succeeds from the side-matching non-stable states, lands in stable with no pending and unchanged current descriptions, and is rejected from stable.")
	sgRegister("C03", "case = as C01 plus signaling tampering (remove mid / ice-ufrag / ice-pwd / fingerprint, corrupt a line, unknown fingerprint hash, unusable codecs, duplicate mid) and wrong-type, stale, empty and garbage descriptions; oracle = on error the state, the four descriptions and the signaling-state event count are unchanged.")
	sgRegister("C04", "case = history of <=12 operations mixing AddTrack, RemoveTrack, AddTransceiverFromKind/FromTrack, Stop, ReplaceTrack, CreateDataChannel, complete and partial offer/answer exchanges and Close on a connecting pair (real network, so the operation queue drains); oracle = invocations only in stable and not closed, at most one per epoch between transitions into stable, and at least one when an uncovered change exists at a stable, drained point.",
		"any transition into stable ends 'the exchange'; a change is treated as covered by every exchange that began after it (sound, weaker than W3C)")
	sgRegister("C06", "case = transceiver/track/data-channel changes interleaved with renegotiations against the pion peer and foreign offers with numeric, non-numeric and sparse mids, under each SDPSemantics, BundlePolicy, AlwaysNegotiateDataChannels and fingerprint level; oracle on every generated description = parses, unique mids, BUNDLE = accepted mids, credentials/direction/setup/fingerprint per accepted section.",
		"BUNDLE equality is checked for Unified Plan peers")
	sgRegister("C07", "case = foreign offers mixing audio, video, application, text/message sections, with and without direction attributes, supported and unsupported codecs, and pion re-offers; oracle on every created answer = same m-section count, order, kind and mid as the applied offer.")
	sgRegister("C08", "case = local direction/track changes and remote (pion and foreign) re-offers over all four directions; oracle on every created answer = RFC 3264 §6.1 direction table per section.")
	sgRegister("C09", "case = alternating renegotiations with additions, removals and stops; oracle = a transceiver's mid never changes, a mid keeps its section index in every generated description, no index is renamed, new transceivers do not reuse an earlier mid.")
	sgRegister("C10", "case = random MediaEngine variants (remapped payload types, RTX with and without primary, direction-limited header extensions), random codec preferences, foreign offers with remapped payload types and extmap ids; oracle per generated media section = payload types unique, rtpmap/fmtp/rtcp-fb/apt refer to listed payload types, extmap ids unique in 1..14, URIs unique.")
	sgRegister("C12", "case = AddTrack/AddTransceiverFromKind/FromTrack (all directions, RTX codecs on/off), simulcast senders (a rid track plus AddEncoding), RemoveTrack, ReplaceTrack, CreateDataChannel, each followed by CreateOffer under Unified Plan; oracle = bijection transceivers<->media sections with mid/kind/direction, msid and SSRC (incl. FID/FEC-FR groups) of every sending track, application section iff data channel or AlwaysNegotiateDataChannels.",
		"the 'only if' direction of the application-section clause is skipped once a remote description carried an application section")
	sgRegister("C16", "case = foreign and pion offers with remapped payload types, RTX, FEC and unsupported codecs against random local MediaEngine variants and codec preferences; oracle per answer section = every payload type is listed in the offer section and maps to the same codec.")
	sgRegister("C39", "case = random initial configurations and SetConfiguration calls with each field changed/unchanged/zero (peer identity, certificates, bundle policy, RTCP mux policy, pool size, valid/invalid ICE servers, transport policy), before and after SetLocalDescription and after Close; oracle = rejected calls leave GetConfiguration deep-equal, immutable changes return InvalidModificationError, invalid ICE servers are rejected without partial changes.")
	_ = sort.Strings
}
