//go:build !js

package webrtc

// C03C: the concurrent part of C03 (second batch of ./check C03, Engine B focus-coop).
//
// 2-4 tasks each make one SetLocalDescription / SetRemoteDescription call on one real
// PeerConnection; some of the descriptions are acceptable in the state the connection is in,
// some are never acceptable (rollback, an answer without an offer, a description of the wrong
// kind). The seeded cooperative scheduler picks who runs at every lock/atomic site of
// peerconnection.go and signalingstate.go, so rejected and accepted calls overlap in every way
// the locking allows. What C03 promises does not depend on the interleaving:
//
//   - the handler is told about at most as many signaling-state changes as calls were accepted
//     (a rejected call emits none);
//   - if no call was accepted, signaling state and the four description slots are what they were.

import (
	"encoding/json"
	"fmt"
	"strings"
	"sync"
	"testing"
	"time"

	"verifsim/simrt"
)

type c03cCase struct {
	Setup     string         `json:"setup"` // fresh | after-exchange
	Tasks     []string       `json:"tasks"` // one call per task
	SchedSeed uint64         `json:"sched_seed"`
	Strat     simrt.Strategy `json:"strat"`
	GenSeed   uint64         `json:"gen_seed"`
}

var c03cKinds = []string{"local-offer", "local-offer", "remote-offer", "remote-rollback", "remote-rollback", "local-rollback", "local-answer", "remote-answer", "remote-pranswer", "local-offer-stale"}

func c03cGen(seed uint64, idx, total int, tier string) any {
	r := vfNewRand(seed, "c03c")
	c := &c03cCase{Setup: vfPick(r, []string{"fresh", "fresh", "after-exchange"}), SchedSeed: r.U64(), Strat: vfGenStrategy(r), GenSeed: r.U64()}
	for n := r.Range(2, 4); n > 0; n-- {
		c.Tasks = append(c.Tasks, vfPick(r, c03cKinds))
	}
	if r.Bool(0.3) { // only calls that can never be accepted
		for i := range c.Tasks {
			c.Tasks[i] = vfPick(r, []string{"remote-rollback", "local-rollback", "local-answer", "remote-answer", "remote-pranswer"})
		}
	}
	return c
}

func c03cRun(t *testing.T, cj []byte, res *vfResult) {
	var c c03cCase
	if err := json.Unmarshal(cj, &c); err != nil {
		res.Verdict, res.Detail = "error", err.Error()
		return
	}
	if len(c.Tasks) == 0 || len(c.Tasks) > 8 {
		res.Verdict, res.Detail = "error", "tasks out of range"
		return
	}
	var mu sync.Mutex
	var events []string
	errs := make([]string, len(c.Tasks))
	returned := make([]bool, len(c.Tasks))
	var trace []simrt.Step
	outcome := ""
	var unfinished []string
	preempts := 0
	before, after := "", ""
	vfBubble(t, func(t *testing.T) {
		nw, err := vfNewNetSim(c.GenSeed, vfNetCfg{})
		if err != nil {
			res.Verdict, res.Detail = "error", err.Error()
			return
		}
		hn, _ := nw.addHost("10.0.1.2")
		_ = nw.Start()
		defer nw.Stop()
		p, err := vfNewPeer("A", hn)
		if err != nil {
			res.Verdict, res.Detail = "error", err.Error()
			return
		}
		pc := p.pc
		defer func() { _ = pc.Close() }()
		if _, err = pc.CreateDataChannel("d", nil); err != nil {
			res.Verdict, res.Detail = "error", err.Error()
			return
		}
		fs := sgNewForeignSession(vfNewRand(c.GenSeed, "fs"))
		if c.Setup == "after-exchange" {
			off, err := pc.CreateOffer(nil)
			if err == nil {
				err = pc.SetLocalDescription(off)
			}
			if err == nil {
				ans := sgForeignAnswer(vfNewRand(c.GenSeed, "fa"), off.SDP, 0, fs)
				err = pc.SetRemoteDescription(SessionDescription{Type: SDPTypeAnswer, SDP: ans})
			}
			if err != nil {
				res.Verdict, res.Detail = "error", "setup exchange: "+err.Error()
				return
			}
		}
		// descriptions are prepared before the tasks start
		stale, err := pc.CreateOffer(nil)
		if err != nil {
			res.Verdict, res.Detail = "error", "CreateOffer: "+err.Error()
			return
		}
		fresh, err := pc.CreateOffer(nil)
		if err != nil {
			res.Verdict, res.Detail = "error", "CreateOffer: "+err.Error()
			return
		}
		var foreign string
		if c.Setup == "after-exchange" {
			foreign = sgForeignOffer(vfNewRand(c.GenSeed, "fo"), 0, "", fs) // a consistent re-offer of the same remote
		} else {
			foreign = sgForeignOffer(vfNewRand(c.GenSeed, "fo"), 0, "", sgNewForeignSession(vfNewRand(c.GenSeed, "fs2")))
		}
		vfDrain(10*time.Second, p)
		snap := func() string {
			d := func(x *SessionDescription) string {
				if x == nil {
					return "-"
				}
				return x.Type.String() + ":" + vfSig([]string{x.SDP})
			}
			return fmt.Sprintf("%s cl=%s pl=%s cr=%s pr=%s", pc.SignalingState(), d(pc.CurrentLocalDescription()), d(pc.PendingLocalDescription()), d(pc.CurrentRemoteDescription()), d(pc.PendingRemoteDescription()))
		}
		before = snap()
		pc.OnSignalingStateChange(func(s SignalingState) {
			mu.Lock()
			events = append(events, s.String())
			mu.Unlock()
		})
		s := simrt.NewSched(c.SchedSeed, c.Strat, "peerconnection.go", "signalingstate.go", "harness:")
		for ti, k := range c.Tasks {
			ti, k := ti, k
			s.Go(fmt.Sprintf("t%d:%s", ti, k), func() {
				simrt.Yield("harness:start:1")
				var err error
				switch k {
				case "local-offer":
					err = pc.SetLocalDescription(fresh)
				case "local-offer-stale": // not the offer CreateOffer returned last
					err = pc.SetLocalDescription(stale)
				case "remote-offer":
					err = pc.SetRemoteDescription(SessionDescription{Type: SDPTypeOffer, SDP: foreign})
				case "remote-rollback":
					err = pc.SetRemoteDescription(SessionDescription{Type: SDPTypeRollback, SDP: foreign})
				case "local-rollback":
					err = pc.SetLocalDescription(SessionDescription{Type: SDPTypeRollback, SDP: fresh.SDP})
				case "local-answer":
					err = pc.SetLocalDescription(SessionDescription{Type: SDPTypeAnswer, SDP: fresh.SDP})
				case "remote-answer":
					err = pc.SetRemoteDescription(SessionDescription{Type: SDPTypeAnswer, SDP: foreign})
				case "remote-pranswer":
					err = pc.SetRemoteDescription(SessionDescription{Type: SDPTypePranswer, SDP: foreign})
				}
				mu.Lock()
				returned[ti] = true
				if err != nil {
					errs[ti] = err.Error()
				}
				mu.Unlock()
			})
		}
		outcome = s.Run(60000, time.Millisecond, 20)
		unfinished = s.Unfinished()
		trace = append(trace, s.Trace...)
		preempts = s.Preempts
		s.StopIf(outcome == "done")
		vfSettle(time.Millisecond)
		if outcome == "done" {
			after = snap()
		}
	})
	if res.Verdict == "error" {
		return
	}
	mu.Lock()
	defer mu.Unlock()
	accepted := 0
	var lines []string
	for ti, k := range c.Tasks {
		if returned[ti] && errs[ti] == "" {
			accepted++
		}
		e := errs[ti]
		if len(e) > 90 {
			e = e[:90]
		}
		lines = append(lines, fmt.Sprintf("t%d %s -> returned=%v err=%q", ti, k, returned[ti], e))
	}
	lines = append(lines, fmt.Sprintf("before: %s", before), fmt.Sprintf("after:  %s", after), fmt.Sprintf("signalingstatechange events: %v", events))
	res.Steps = len(trace)
	res.stat("preemptions", int64(preempts))
	res.stat("calls_accepted", int64(accepted))
	res.stat("calls_rejected", int64(len(c.Tasks)-accepted))
	sched := make([]string, 0, len(trace))
	for _, st := range trace {
		sched = append(sched, fmt.Sprintf("%d@%s", st.Task, st.Site))
	}
	res.Log = append(lines, sched...)
	res.Sig = vfSig(res.Log)
	if outcome != "done" {
		// (C03 does not promise that overlapping calls return; counted, not reported)
		res.stat("inconclusive_calls_did_not_return_"+outcome, 1)
		res.Log = append(res.Log, "unfinished: "+strings.Join(unfinished, "; "))
		vfKeepSchedule(res, &c.Strat, trace, &c)
		return
	}
	if len(events) > accepted {
		res.violate("concurrent:signalingstatechange-without-an-accepted-call", fmt.Sprintf("%d of %d overlapping calls were accepted, the handler was told %d changes %v", accepted, len(c.Tasks), len(events), events))
	}
	if accepted == 0 && before != after {
		res.violate("concurrent:state-changed-although-every-call-was-rejected", fmt.Sprintf("before %s, after %s", before, after))
	}
	if preempts > 0 {
		res.Nontrivial = res.Sig
	}
	vfKeepSchedule(res, &c.Strat, trace, &c)
}

func init() {
	vfRegister(&vfProp{
		ID: "C03C", Level: "exploration", ReplayClass: "decision-exact",
		Gen: c03cGen, Run: c03cRun,
		Rule: "case = one real PeerConnection (fresh or after a completed exchange with a foreign peer) on which 2-4 tasks each make one SetLocalDescription/SetRemoteDescription call (own offer, stale own offer, foreign offer, rollbacks, answers and pranswers without an offer; 30% of the cases only calls that can never be accepted); the seeded cooperative scheduler picks the next task at every lock/atomic site of peerconnection.go and signalingstate.go; non-trivial = at least one preemption, distinct = hash of (results, schedule)",
		Real: []string{"the PeerConnection (signaling state machine, description slots, operations queue, gatherer)"},
		Stub: []string{"remote peer: foreign SDP generator", "network: unrouted vnet host"},
	})
}
