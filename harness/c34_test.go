//go:build !js

package webrtc

// C34 — Annex-B readers return exactly the framed NAL units.
// Engine C (iosim): the real h264reader / h265reader read a generated Annex-B stream through a
// simulated io.Reader whose chunking, zero-length reads, (n>0, io.EOF) returns and one optional
// transient error are pure functions of (chunk seed, byte offset). Single task, no goroutines:
// Run is a pure function of the case JSON.
//
// When a run violates the oracle, Run re-executes the same case with the simulated reader's
// special behaviours switched off one by one (the chunk sizes at every byte offset stay the same)
// and names the smallest set of behaviours that still produces a violation in the class suffix,
// so that independent defects are reported as independent classes.

import (
	"bytes"
	"encoding/json"
	"errors"
	"fmt"
	"io"
	"runtime/debug"
	"strings"
	"testing"

	"github.com/pion/webrtc/v4/pkg/media/h264reader"
	"github.com/pion/webrtc/v4/pkg/media/h265reader"
)

type c34Nal struct {
	Type      int    `json:"type"`
	Len       int    `json:"len"`
	StartCode int    `json:"startcode"` // 3 | 4
	Seed      uint64 `json:"seed"`
}

type c34Case struct {
	Codec       string   `json:"codec"` // h264 | h265
	Nals        []c34Nal `json:"nals"`
	IncludeSEI  bool     `json:"include_sei"`
	ChunkSeed   uint64   `json:"chunk_seed"`
	Faulty      bool     `json:"faulty"`                  // one transient error in the middle of the stream
	ZeroReads   bool     `json:"zero_reads,omitempty"`    // the source sometimes returns (0, nil)
	EOFWithData bool     `json:"eof_with_data,omitempty"` // the last bytes come together with io.EOF
}

func c34IsSEI(codec string, typ int) bool {
	if codec == "h265" {
		return typ == 39 || typ == 40
	}
	return typ == 6
}

func c34MinLen(codec string) int {
	if codec == "h265" {
		return 2 // the H.265 NAL header is two bytes
	}
	return 1
}

// c34NalBytes builds the NAL unit: header byte(s) carrying the type and seeded other header
// fields, then seeded filler biased towards 0x00..0x03, repaired so that 00 00 00 and 00 00 01
// never occur and the unit does not end in 0x00.
func c34NalBytes(codec string, n c34Nal) []byte {
	r := vfNewRand(n.Seed, "c34nal")
	l := n.Len
	if l < 1 {
		l = 1
	}
	if l > 10240 {
		l = 10240
	}
	b := make([]byte, 0, l)
	hdr := 1
	if codec == "h265" {
		hdr = 2
		f := 0
		if r.Intn(16) == 0 {
			f = 1
		}
		layer := r.Intn(64)
		if r.Bool(0.5) {
			layer = 0
		}
		tid := r.Range(1, 7) // temporal_id_plus1 is never 0 in H.265
		b = append(b, byte(f<<7|(n.Type&0x3f)<<1|layer>>5), byte((layer&0x1f)<<3|tid))
		if l == 1 {
			b = b[:1]
			if b[0] == 0 {
				b[0] = 1 // a one-byte unit must not be a trailing zero byte
			}
			return b
		}
	} else {
		f := 0
		if r.Intn(16) == 0 {
			f = 1
		}
		ref := r.Intn(4)
		h := byte(f<<7 | ref<<5 | n.Type&0x1f)
		if h == 0 && l == 1 {
			h = 0x20 // a one-byte unit must not be a trailing zero byte
		}
		b = append(b, h)
	}
	lowBias := r.Intn(3) // 0: uniform bytes, 1: half of the bytes in 0..3, 2: nearly all in 0..3
	for len(b) < l {
		var v byte
		switch {
		case lowBias == 1 && r.Bool(0.5), lowBias == 2 && r.Bool(0.9):
			v = byte(r.Intn(4))
		default:
			v = byte(r.U64())
		}
		b = append(b, v)
	}
	for i := hdr; i < len(b); i++ {
		if i >= 2 && b[i-1] == 0 && b[i-2] == 0 && b[i] <= 1 {
			b[i] = byte(2 + r.Intn(2)) // 00 00 02 / 00 00 03 are not start codes
		}
	}
	if len(b) > hdr && b[len(b)-1] == 0 {
		b[len(b)-1] = byte(1 + r.Intn(255))
		if i := len(b) - 1; i >= 2 && b[i-1] == 0 && b[i-2] == 0 && b[i] == 1 {
			b[i] = 2
		}
	}
	return b
}

func c34Gen(seed uint64, idx, total int, tier string) any {
	r := vfNewRand(seed, "c34")
	c := &c34Case{Codec: vfPick(r, []string{"h264", "h265"}), IncludeSEI: r.Bool(0.3), ChunkSeed: r.U64(),
		Faulty: r.Bool(0.25), ZeroReads: r.Bool(0.5), EOFWithData: r.Bool(0.5)}
	if c.Faulty && r.Bool(0.6) {
		c.ZeroReads, c.EOFWithData = false, false
	}
	n := r.Range(1, 8)
	if r.Intn(40) == 0 {
		n = 0
	}
	maxType := 31
	sei := []int{6}
	if c.Codec == "h265" {
		maxType = 63
		sei = []int{39, 40}
	}
	for i := 0; i < n; i++ {
		var nl c34Nal
		nl.Type = r.Intn(maxType + 1)
		if r.Bool(0.2) || (i == n-1 && r.Bool(0.15)) {
			nl.Type = vfPick(r, sei)
		}
		switch x := r.Intn(20); {
		case x < 9:
			nl.Len = r.Range(1, 40)
		case x < 13:
			nl.Len = r.Range(41, 600)
		case x < 16:
			nl.Len = r.Range(4080, 4110) // around the readers' 4096-byte read buffer
		case x < 18:
			nl.Len = r.Range(8180, 8200)
		case x < 19:
			nl.Len = 10240
		default:
			nl.Len = r.Range(600, 10240)
		}
		if nl.Len < c34MinLen(c.Codec) && !(c.Codec == "h265" && r.Bool(0.5)) {
			nl.Len = c34MinLen(c.Codec) // (half of the 1-byte H.265 units stay: a truncated header, still framed as a unit)
		}
		nl.StartCode = 3 + r.Intn(2)
		nl.Seed = r.U64()
		c.Nals = append(c.Nals, nl)
	}
	return c
}

// ---------------------------------------------------------------- iosim

var errC34Transient = errors.New("simulated transient read error")

type c34Sim struct {
	data        []byte
	pos         int
	seed        uint64
	zero        bool
	eofWithData bool
	faultAt     int // -1: no fault
	fired       bool
	firedCall   int
	zeroDone    map[int]bool
	calls       int
	nZero       int
	nOne        int
	nEOFData    int
	sizes       []string
}

func (s *c34Sim) Read(p []byte) (int, error) {
	s.calls++
	if len(p) == 0 {
		return 0, nil
	}
	if s.faultAt >= 0 && !s.fired && s.pos >= s.faultAt {
		s.fired = true
		s.firedCall = s.calls
		s.sizes = append(s.sizes, "ERR")
		return 0, errC34Transient
	}
	if s.pos >= len(s.data) {
		s.sizes = append(s.sizes, "EOF")
		return 0, io.EOF
	}
	if s.zero && !s.zeroDone[s.pos] && vfH(s.seed, "zero", uint64(s.pos))%6 == 0 {
		s.zeroDone[s.pos] = true
		s.nZero++
		s.sizes = append(s.sizes, "0")
		return 0, nil
	}
	rem := len(s.data) - s.pos
	max := len(p)
	if rem < max {
		max = rem
	}
	if s.faultAt > s.pos && !s.fired && s.faultAt-s.pos < max {
		max = s.faultAt - s.pos // the error strikes exactly at its offset
	}
	n := max
	switch h := vfH(s.seed, "mode", uint64(s.pos)); h % 8 {
	case 0, 1:
		n = 1
	case 2, 3: // whatever fits
	case 4:
		n = 1 + int((h>>8)%7)
	default:
		n = 1 + int((h>>8)%uint64(max))
	}
	if n > max {
		n = max
	}
	if n == 1 {
		s.nOne++
	}
	copy(p, s.data[s.pos:s.pos+n])
	s.pos += n
	if s.pos == len(s.data) && s.eofWithData {
		s.nEOFData++
		s.sizes = append(s.sizes, fmt.Sprintf("%d+EOF", n))
		return n, io.EOF
	}
	s.sizes = append(s.sizes, fmt.Sprint(n))
	return n, nil
}

// ---------------------------------------------------------------- one execution

type c34Got struct {
	data   []byte
	fields map[string]int
}

type c34Outcome struct {
	class, detail string
	log           []string
	sim           *c34Sim
	returned      int
}

func c34B2i(b bool) int {
	if b {
		return 1
	}
	return 0
}

func c34Hex(b []byte) string {
	if len(b) <= 24 {
		return fmt.Sprintf("%x", b)
	}
	return fmt.Sprintf("%x..%x(%d bytes)", b[:12], b[len(b)-8:], len(b))
}

// c34Exec runs one reader over the stream with the given simulated-source behaviours.
func c34Exec(c *c34Case, units [][]byte, stream []byte, zero, eofData, fault bool) (o *c34Outcome) {
	sim := &c34Sim{data: stream, seed: c.ChunkSeed, zero: zero, eofWithData: eofData, faultAt: -1, zeroDone: map[int]bool{}}
	if fault && len(stream) > 2 {
		sim.faultAt = 1 + int(vfH(c.ChunkSeed, "fault", 0)%uint64(len(stream)-1))
	}
	o = &c34Outcome{sim: sim}
	viol := func(class, detail string) {
		if o.class == "" {
			o.class, o.detail = class, detail
		}
	}
	defer func() {
		if r := recover(); r != nil {
			st := strings.Split(string(debug.Stack()), "\n")
			if len(st) > 24 {
				st = st[:24]
			}
			o.class = ""
			viol("reader-panicked", fmt.Sprintf("%v\n%s", r, strings.Join(st, "\n")))
		}
	}()
	var next func() (*c34Got, error)
	if c.Codec == "h265" {
		rd, err := h265reader.NewReaderWithOptions(sim, h265reader.WithIncludeSEI(c.IncludeSEI))
		if err != nil {
			viol("reader-error-on-valid-stream", "NewReaderWithOptions: "+err.Error())
			return o
		}
		next = func() (*c34Got, error) {
			n, err := rd.NextNAL()
			if n == nil {
				return nil, err
			}
			return &c34Got{data: n.Data, fields: map[string]int{"ForbiddenZeroBit": c34B2i(n.ForbiddenZeroBit),
				"NalUnitType": int(n.NalUnitType), "LayerID": int(n.LayerID), "TemporalIDPlus1": int(n.TemporalIDPlus1)}}, err
		}
	} else {
		rd, err := h264reader.NewReaderWithOptions(sim, h264reader.WithIncludeSEI(c.IncludeSEI))
		if err != nil {
			viol("reader-error-on-valid-stream", "NewReaderWithOptions: "+err.Error())
			return o
		}
		next = func() (*c34Got, error) {
			n, err := rd.NextNAL()
			if n == nil {
				return nil, err
			}
			return &c34Got{data: n.Data, fields: map[string]int{"ForbiddenZeroBit": c34B2i(n.ForbiddenZeroBit),
				"RefIdc": int(n.RefIdc), "UnitType": int(n.UnitType)}}, err
		}
	}
	want := func(u []byte) map[string]int {
		if c.Codec == "h265" {
			if len(u) < 2 {
				return nil
			}
			return map[string]int{"ForbiddenZeroBit": int(u[0] >> 7), "NalUnitType": int(u[0]>>1) & 0x3f,
				"LayerID": int(u[0]&1)<<5 | int(u[1]>>3), "TemporalIDPlus1": int(u[1] & 7)}
		}
		return map[string]int{"ForbiddenZeroBit": int(u[0] >> 7), "RefIdc": int(u[0]>>5) & 3, "UnitType": int(u[0] & 0x1f)}
	}
	expected := 0
	for _, n := range c.Nals {
		if c.IncludeSEI || !c34IsSEI(c.Codec, n.Type) {
			expected++
		}
	}
	type kept struct {
		ref, cp []byte
		j       int
	}
	var keptNals []kept
	j := 0 // next source unit not yet accounted for
	ended, endErr := false, error(nil)
	for call := 0; call < expected+3; call++ {
		got, err := next()
		firedBefore := sim.fired
		if got == nil || err != nil {
			ended, endErr = true, err
			o.log = append(o.log, fmt.Sprintf("NextNAL#%d -> nil, %v (source at %d/%d)", call, err, sim.pos, len(stream)))
			if got != nil {
				viol("reader-returned-nal-and-error", fmt.Sprintf("call %d returned a NAL of %d bytes together with error %v", call, len(got.data), err))
			}
			break
		}
		o.returned++
		o.log = append(o.log, fmt.Sprintf("NextNAL#%d -> %d bytes %s fields=%v (source at %d/%d)", call, len(got.data), c34Hex(got.data), got.fields, sim.pos, len(stream)))
		cls := func(base string) string {
			if firedBefore {
				return "wrong-data-after-transient-error"
			}
			return base
		}
		// skipped SEI units
		if !c.IncludeSEI {
			for j < len(units) && c34IsSEI(c.Codec, c.Nals[j].Type) {
				if bytes.Equal(got.data, units[j]) {
					pos := "in the middle"
					if j == len(units)-1 {
						pos = "the last unit of the stream"
					} else if j == 0 {
						pos = "the first unit of the stream"
					}
					viol(cls("sei-not-skipped"), fmt.Sprintf("SEI inclusion is off but call %d returned source unit %d (type %d, %d bytes, %s)", call, j, c.Nals[j].Type, len(units[j]), pos))
					return o
				}
				j++
			}
		}
		if j >= len(units) {
			viol(cls("nal-count-differs"), fmt.Sprintf("call %d returned one more NAL (%d bytes %s) after all %d expected units had been returned", call, len(got.data), c34Hex(got.data), expected))
			return o
		}
		if !bytes.Equal(got.data, units[j]) {
			how := ""
			switch {
			case len(got.data) < len(units[j]) && bytes.Equal(got.data, units[j][:len(got.data)]):
				how = " (a truncated prefix of the expected unit)"
			case len(got.data) > len(units[j]) && bytes.Equal(got.data[:len(units[j])], units[j]):
				how = " (the expected unit followed by extra bytes)"
			}
			viol(cls("nal-bytes-differ"), fmt.Sprintf("call %d returned %d bytes %s, expected source unit %d: %d bytes %s%s", call, len(got.data), c34Hex(got.data), j, len(units[j]), c34Hex(units[j]), how))
			return o
		}
		if w := want(units[j]); w != nil {
			for _, k := range vfSortedKeys(w) {
				if got.fields[k] != w[k] {
					viol(cls("header-field-differs:"+k), fmt.Sprintf("unit %d header bytes %x: %s parsed as %d, header says %d", j, units[j][:c34MinLen(c.Codec)], k, got.fields[k], w[k]))
					return o
				}
			}
		}
		keptNals = append(keptNals, kept{ref: got.data, cp: append([]byte{}, got.data...), j: j})
		j++
	}
	for _, k := range keptNals {
		if !bytes.Equal(k.ref, k.cp) {
			viol("nal-bytes-changed-after-return", fmt.Sprintf("the Data slice returned for unit %d was modified by later NextNAL calls", k.j))
			return o
		}
	}
	if !ended {
		viol("reader-made-no-progress", fmt.Sprintf("%d NextNAL calls on a stream of %d expected units did not reach end of stream", expected+3, expected))
		return o
	}
	if sim.fired {
		return o // after the injected error only "no wrong data" is required
	}
	if endErr != nil && !errors.Is(endErr, io.EOF) {
		viol("reader-error-on-valid-stream", fmt.Sprintf("NextNAL returned %q after %d of %d units (source at %d/%d)", endErr.Error(), o.returned, expected, sim.pos, len(stream)))
		return o
	}
	if !c.IncludeSEI {
		for j < len(units) && c34IsSEI(c.Codec, c.Nals[j].Type) {
			j++
		}
	}
	if j < len(units) {
		viol("nal-count-differs", fmt.Sprintf("end of stream reported after %d of %d expected units; first missing: source unit %d (%d bytes); the source had delivered %d of %d bytes", o.returned, expected, j, len(units[j]), sim.pos, len(stream)))
	}
	return o
}

func c34Run(t *testing.T, cj []byte, res *vfResult) {
	var c c34Case
	if err := json.Unmarshal(cj, &c); err != nil {
		res.Verdict, res.Detail = "error", err.Error()
		return
	}
	if c.Codec != "h264" && c.Codec != "h265" {
		res.Verdict, res.Detail = "error", "bad codec"
		return
	}
	var units [][]byte
	var stream []byte
	shape := []string{c.Codec, fmt.Sprint(c.IncludeSEI, c.Faulty)}
	for i := range c.Nals {
		if c.Nals[i].StartCode != 4 {
			c.Nals[i].StartCode = 3
		}
		u := c34NalBytes(c.Codec, c.Nals[i])
		c.Nals[i].Len = len(u)
		units = append(units, u)
		if c.Nals[i].StartCode == 4 {
			stream = append(stream, 0)
		}
		stream = append(stream, 0, 0, 1)
		stream = append(stream, u...)
		shape = append(shape, fmt.Sprintf("%d/%d/%d", c.Nals[i].Type, len(u), c.Nals[i].StartCode))
	}
	o := c34Exec(&c, units, stream, c.ZeroReads, c.EOFWithData, c.Faulty)
	if c.Faulty {
		res.stat("runs_faulty", 1)
		res.stat("transient_errors_fired", int64(c34B2i(o.sim.fired)))
	} else {
		res.stat("runs_fault_free", 1)
	}
	res.stat("zero_length_reads", int64(o.sim.nZero))
	res.stat("one_byte_reads", int64(o.sim.nOne))
	res.stat("eof_returned_with_data", int64(o.sim.nEOFData))
	res.stat("nals_returned", int64(o.returned))
	res.stat("stream_bytes", int64(len(stream)))
	for i, n := range c.Nals {
		if c34IsSEI(c.Codec, n.Type) {
			res.stat("sei_units", 1)
			if i == len(c.Nals)-1 {
				res.stat("sei_unit_last", 1)
			}
		}
	}
	lines := append([]string{}, shape...)
	lines = append(lines, "reads: "+strings.Join(o.sim.sizes, " "))
	lines = append(lines, o.log...)
	res.Sig = vfSig(lines)
	if len(c.Nals) >= 2 && o.sim.calls >= 3 {
		res.Nontrivial = vfSig(append(append([]string{}, shape...), strings.Join(o.sim.sizes, " ")))
	}
	if o.class != "" {
		// attribution: smallest set of source behaviours under which the case still fails
		type flags struct{ z, e, f bool }
		on := flags{c.ZeroReads, c.EOFWithData, c.Faulty}
		cands := []flags{{}, {z: true}, {e: true}, {f: true}, {z: true, e: true}, {z: true, f: true}, {e: true, f: true}}
		best, bestFlags := o, on
		for _, f := range cands {
			if (f.z && !on.z) || (f.e && !on.e) || (f.f && !on.f) || f == on {
				continue
			}
			if o2 := c34Exec(&c, units, stream, f.z, f.e, f.f); o2.class != "" {
				best, bestFlags = o2, f
				break
			}
		}
		var needs []string
		if bestFlags.z {
			needs = append(needs, "after-zero-length-read")
		}
		if bestFlags.e {
			needs = append(needs, "eof-returned-with-data")
		}
		if bestFlags.f && best.class != "wrong-data-after-transient-error" {
			needs = append(needs, "after-transient-error")
		}
		class := best.class
		if len(needs) > 0 {
			class += ":" + strings.Join(needs, "+")
		}
		cause := "fails with plain chunking (no zero-length read, EOF returned separately, no error injected)"
		if bestFlags != (flags{}) {
			cause = fmt.Sprintf("smallest failing source behaviour set: zero-length reads=%v, EOF together with data=%v, transient error=%v (the same chunk sizes without these behaviours pass)", bestFlags.z, bestFlags.e, bestFlags.f)
		}
		res.violate(class, best.detail+"\n"+cause+"\nsource reads: "+strings.Join(best.sim.sizes, " "))
		lines = append([]string{"-- attributed execution --", "reads: " + strings.Join(best.sim.sizes, " ")}, best.log...)
	}
	if len(lines) > 60 {
		lines = append(lines[:60], fmt.Sprintf("... %d more lines", len(lines)-60))
	}
	for i := range lines {
		if len(lines[i]) > 400 {
			lines[i] = lines[i][:400] + "..."
		}
	}
	res.Log = lines
}

func init() {
	vfRegister(&vfProp{
		ID: "C34", Level: "exploration", ReplayClass: "exact",
		Rule: "case = codec (h264|h265), 0-8 NAL units {type (all 32 / 64 values; SEI forced on 20% of the units and on 32% of the last units), length 1 B-10 KiB with clusters around 4096/8192/10240, 3- or 4-byte start code, content seed (bytes biased to 00..03, no 00 00 00 / 00 00 01 inside, no trailing 00)}, SEI inclusion on/off, chunk seed (per byte offset: 1 byte / 1-7 bytes / uniform / all that fits), zero-length reads on/off, last bytes returned together with io.EOF on/off, optional single transient error at a seeded offset; non-trivial = >=2 units and >=3 Read calls, distinct = hash of (codec, options, unit (type,length,start code) list, sequence of Read results)",
		Real: []string{"pkg/media/h264reader (NewReaderWithOptions, WithIncludeSEI, NextNAL, header parsing)", "pkg/media/h265reader (same)"},
		Stub: []string{"the byte source is the simulated io.Reader (iosim): seeded chunk sizes, (0,nil) reads, (n>0, io.EOF), one transient error"},
		Assumptions: []string{
			"NAL unit bytes never contain 00 00 00 or 00 00 01 and never end in 00 (emulation prevention is the encoder's job); 00 00 02 and 00 00 03 do occur",
			"H.265 units are at least 2 bytes long (a complete NAL header) and carry temporal_id_plus1 in 1..7",
			"(0, nil) is returned at most once per byte offset, never twice in a row",
			"after the injected transient error the harness stops at the first error NextNAL reports and requires only that every NAL returned is the next expected unit, byte for byte",
			"a (nil, nil) return from NextNAL is accepted as end of stream like (nil, io.EOF)",
		},
		Shrink: []string{"nals"},
		Gen:    c34Gen, Run: c34Run,
	})
}
