//go:build !js

package webrtc

// C31 — SampleBuilder emits only well-formed samples, in order, each once.
// Engine C (pktsim): a sender produces frames of RTP packets (sequence numbers and timestamps may
// wrap), a simulated link decides loss, duplication and bounded reordering, the real
// samplebuilder.SampleBuilder receives them with Pop calls interleaved and a final Flush.
// The depacketizer is a harness codec: every payload carries (frame id, index in frame, head/tail
// flags, length) and deterministic filler, so every byte of every emitted sample is attributed to
// exactly one pushed packet. Single task, no goroutines: Run is a pure function of the case JSON.

import (
	"bytes"
	"encoding/binary"
	"encoding/json"
	"fmt"
	"runtime/debug"
	"sort"
	"strings"
	"testing"
	"time"

	"github.com/pion/rtp"
	"github.com/pion/webrtc/v4/pkg/media"
	"github.com/pion/webrtc/v4/pkg/media/samplebuilder"
)

type c31Frame struct {
	Packets int  `json:"packets"`
	Size    int  `json:"size"`              // payload bytes per packet (>= 9)
	NoTail  bool `json:"no_tail,omitempty"` // no packet of the frame is flagged as partition tail (boundary = timestamp change)
	Heads   int  `json:"heads,omitempty"`   // 0: only the first packet is a partition head, 1: every packet, 2: every second packet
}

type c31Deliv struct {
	K    int `json:"k"`              // index of the packet in sending order
	Pops int `json:"pops,omitempty"` // Pop calls after this Push (-1: pop until nil)
}

type c31Case struct {
	Frames         []c31Frame `json:"frames"`
	StartSeq       uint16     `json:"start_seq"`
	StartTS        uint32     `json:"start_ts"`
	TSStep         uint32     `json:"ts_step"`
	MaxLate        uint16     `json:"max_late"`
	MaxTimeDelayMs int        `json:"max_time_delay_ms"` // 0 = option not used
	DeliverySeed   uint64     `json:"delivery_seed"`     // what the delivery list was derived from (informational)
	Window         int        `json:"window"`            // reorder window used by the generator (informational)
	Delivery       []c31Deliv `json:"delivery"`
}

const c31HdrLen = 9

type c31Pkt struct {
	k, frame, idx int
	seq           uint16
	ts            uint32
	head, tail    bool
	payload       []byte
}

type c31Depack struct{}

func (c31Depack) Unmarshal(p []byte) ([]byte, error) { return p, nil }
func (c31Depack) IsPartitionHead(p []byte) bool      { return len(p) >= c31HdrLen && p[6]&1 != 0 }
func (c31Depack) IsPartitionTail(marker bool, p []byte) bool {
	return len(p) >= c31HdrLen && p[6]&2 != 0
}

func c31Build(c *c31Case) []*c31Pkt {
	var pk []*c31Pkt
	for f, fr := range c.Frames {
		n := fr.Packets
		if n < 1 {
			n = 1
		}
		if n > 64 {
			n = 64
		}
		size := fr.Size
		if size < c31HdrLen {
			size = c31HdrLen
		}
		if size > 1400 {
			size = 1400
		}
		for i := 0; i < n; i++ {
			k := len(pk)
			p := &c31Pkt{k: k, frame: f, idx: i, seq: c.StartSeq + uint16(k), ts: c.StartTS + uint32(f)*c.TSStep}
			p.head = i == 0 || fr.Heads == 1 || (fr.Heads == 2 && i%2 == 0)
			p.tail = i == n-1 && !fr.NoTail
			b := make([]byte, size)
			binary.BigEndian.PutUint32(b[0:], uint32(f))
			binary.BigEndian.PutUint16(b[4:], uint16(i))
			if p.head {
				b[6] |= 1
			}
			if p.tail {
				b[6] |= 2
			}
			binary.BigEndian.PutUint16(b[7:], uint16(size))
			for j := c31HdrLen; j < size; j++ {
				b[j] = byte(vfH(uint64(f)<<20|uint64(i), "c31fill", uint64(j)))
			}
			p.payload = b
			pk = append(pk, p)
		}
	}
	return pk
}

func c31Gen(seed uint64, idx, total int, tier string) any {
	r := vfNewRand(seed, "c31")
	c := &c31Case{DeliverySeed: r.U64()}
	nf := r.Range(1, 12)
	bigFrames := r.Bool(0.15)
	plain := r.Bool(0.4) // every frame ends in a tail flag and only first packets are partition heads
	n := 0
	for i := 0; i < nf; i++ {
		fr := c31Frame{Packets: r.Range(1, 4), Size: r.Range(9, 40)}
		if bigFrames {
			fr.Packets = r.Range(1, 12)
		}
		if r.Bool(0.3) {
			fr.Packets = 1
		}
		if !plain && r.Bool(0.15) {
			fr.NoTail = true
		}
		switch x := r.Intn(10); {
		case plain:
		case x < 2:
			fr.Heads = 1
		case x < 3:
			fr.Heads = 2
		}
		n += fr.Packets
		c.Frames = append(c.Frames, fr)
	}
	switch x := r.Intn(10); {
	case x < 5:
		c.StartSeq = uint16(65535 - r.Intn(n+3))
	case x < 6:
		c.StartSeq = uint16(65536 - n)
	default:
		c.StartSeq = uint16(r.Intn(65536))
	}
	c.TSStep = vfPick(r, []uint32{1, 90, 960, 3000, 3000, 3000, 90000, 0x10000000})
	switch x := r.Intn(10); {
	case x < 4:
		c.StartTS = uint32(0x100000000 - uint64(c.TSStep)*uint64(r.Intn(nf+1)) - uint64(r.Intn(3)))
	default:
		c.StartTS = uint32(r.U64())
	}
	switch x := r.Intn(10); {
	case x < 3:
		c.MaxLate = uint16(r.Range(1, 5))
	case x < 8:
		c.MaxLate = uint16(r.Range(6, 20))
	default:
		c.MaxLate = uint16(r.Range(21, 60))
	}
	if r.Bool(0.3) {
		c.MaxTimeDelayMs = vfPick(r, []int{1, 20, 34, 67, 100, 500})
	}
	// the link
	dr := vfNewRand(c.DeliverySeed, "c31link")
	c.Window = vfPick(dr, []int{0, 0, 0, 1, 2, 3, 4, 6, 12})
	pLoss := vfPick(dr, []float64{0, 0, 0, 0, 0.05, 0.2})
	pDup := vfPick(dr, []float64{0, 0, 0, 0.1, 0.25})
	type ent struct{ key, k int }
	var es []ent
	for k := 0; k < n; k++ {
		if dr.Bool(pLoss) {
			continue
		}
		es = append(es, ent{k + dr.Intn(c.Window+1), k})
		if dr.Bool(pDup) {
			es = append(es, ent{k + dr.Intn(c.Window+3), k})
		}
	}
	if dr.Bool(0.2) {
		// stale duplicates: a few packets arrive once more long after their frame (far outside the
		// reorder window and max_late)
		if dr.Bool(0.5) {
			c.MaxLate = uint16(dr.Range(1, 4)) // (a small window is drained by frames as long as itself)
		}
		for m := dr.Range(1, 3); m > 0 && n > 0; m-- {
			k := dr.Intn(n)
			es = append(es, ent{k + int(c.MaxLate) + dr.Range(9, 40), k})
		}
	}
	sort.SliceStable(es, func(i, j int) bool { return es[i].key < es[j].key })
	popMode := dr.Intn(10)
	for _, e := range es {
		d := c31Deliv{K: e.k}
		switch {
		case popMode < 2: // no Pop before the end
		case popMode < 5:
			d.Pops = -1
		default:
			if dr.Bool(0.4) {
				d.Pops = dr.Range(1, 3)
			}
		}
		c.Delivery = append(c.Delivery, d)
	}
	return c
}

type c31Emitted struct {
	first, last int // packet indices
	frame       int
	when        string
}

// c31Run runs the case and, when it fails on a stream that crosses a sequence-number or timestamp
// wrap, runs the same frames and the same delivery pattern again on a stream that starts far from
// both wraps: a violation that disappears there depends on wrap-around arithmetic (a different
// defect than the window bookkeeping ones listed in known_findings.json).
func c31Run(t *testing.T, cj []byte, res *vfResult) {
	c31RunOnce(t, cj, res)
	if res.Verdict != "violation" {
		return
	}
	var c c31Case
	if json.Unmarshal(cj, &c) != nil {
		return
	}
	n := len(c31Build(&c))
	seqWrap := n > 0 && int(c.StartSeq)+n > 65536
	tsWrap := len(c.Frames) > 0 && uint64(c.StartTS)+uint64(c.TSStep)*uint64(len(c.Frames)-1) > 0xffffffff
	if !seqWrap && !tsWrap {
		return
	}
	c2 := c
	c2.StartSeq, c2.StartTS = 1000, 1000
	if uint64(c2.StartTS)+uint64(c2.TSStep)*uint64(len(c2.Frames)) > 0xffffffff {
		return // the stream itself is longer than the timestamp space
	}
	cj2, _ := json.Marshal(&c2)
	ref := &vfResult{Verdict: "ok"}
	c31RunOnce(t, cj2, ref)
	if ref.Verdict != "violation" || ref.Class != res.Class {
		res.Class += ":only-with-wraparound"
		res.Detail = "(the same frames and delivery order on a stream that starts at sequence number 1000 / timestamp 1000 pass) " + res.Detail
	}
}

func c31RunOnce(t *testing.T, cj []byte, res *vfResult) {
	var c c31Case
	if err := json.Unmarshal(cj, &c); err != nil {
		res.Verdict, res.Detail = "error", err.Error()
		return
	}
	if len(c.Frames) > 4096 || len(c.Delivery) > 60000 {
		res.Verdict, res.Detail = "error", "case too large"
		return
	}
	pk := c31Build(&c)
	n := len(pk)
	if n >= 30000 {
		res.Verdict, res.Detail = "error", "more than 30000 packets: sequence numbers would be ambiguous"
		return
	}
	frameFirst := make([]int, len(c.Frames))
	frameLast := make([]int, len(c.Frames))
	for _, p := range pk {
		if p.idx == 0 {
			frameFirst[p.frame] = p.k
		}
		frameLast[p.frame] = p.k
	}
	var lines []string
	logf := func(f string, a ...any) { lines = append(lines, fmt.Sprintf(f, a...)) }
	arrivals := make([]int, n)
	refused := make([]int, n)
	keptAfterEmission := make([]int, n)
	inSample := make([]int, n) // 1-based index of the sample that contains the packet
	var emitted []c31Emitted
	lastMax := -1
	released := 0
	var opts []samplebuilder.Option
	opts = append(opts, samplebuilder.WithPacketReleaseHandler(func(p *rtp.Packet) {
		// the documented purpose of the handler is to recycle the packet: scribble over it
		released++
		for i := range p.Payload {
			p.Payload[i] = 0xEE
		}
	}))
	if c.MaxTimeDelayMs > 0 {
		opts = append(opts, samplebuilder.WithMaxTimeDelay(time.Duration(c.MaxTimeDelayMs)*time.Millisecond))
	}

	desc := func(k int) string {
		p := pk[k]
		fl := ""
		if p.head {
			fl += "H"
		}
		if p.tail {
			fl += "T"
		}
		return fmt.Sprintf("#%d(seq %d ts %d frame %d/%d %s)", k, p.seq, p.ts, p.frame, p.idx, fl)
	}
	history := func() string {
		h := lines
		if len(h) > 70 {
			h = append([]string{fmt.Sprintf("... %d earlier events", len(h)-70)}, h[len(h)-70:]...)
		}
		return strings.Join(h, "\n")
	}
	check := func(s *media.Sample, when string) {
		// attribute every byte
		var run []int
		d := s.Data
		for off := 0; off < len(d); {
			if len(d)-off < c31HdrLen {
				res.violate("sample-bytes-not-attributable", fmt.Sprintf("%s: sample of %d bytes: %d stray bytes at offset %d\n%s", when, len(d), len(d)-off, off, history()))
				return
			}
			f := int(binary.BigEndian.Uint32(d[off:]))
			i := int(binary.BigEndian.Uint16(d[off+4:]))
			l := int(binary.BigEndian.Uint16(d[off+7:]))
			if f >= len(c.Frames) || frameFirst[f]+i > frameLast[f] || l != len(pk[frameFirst[f]+i].payload) || off+l > len(d) ||
				!bytes.Equal(d[off:off+l], pk[frameFirst[f]+i].payload) {
				res.violate("sample-bytes-not-attributable", fmt.Sprintf("%s: sample of %d bytes: the bytes at offset %d (%x...) are not the payload of any sent packet\n%s", when, len(d), off, d[off:min(len(d), off+12)], history()))
				return
			}
			run = append(run, frameFirst[f]+i)
			off += l
		}
		if len(run) == 0 {
			res.violate("sample-bytes-not-attributable", fmt.Sprintf("%s: empty sample (every packet carries >= %d payload bytes)\n%s", when, c31HdrLen, history()))
			return
		}
		var ds []string
		for _, k := range run {
			ds = append(ds, desc(k))
		}
		logf("%s -> sample %d: ts %d, %d bytes, packets %s", when, len(emitted)+1, s.PacketTimestamp, len(d), strings.Join(ds, " "))
		for _, k := range run {
			if arrivals[k] == 0 {
				res.violate("sample-contains-packet-never-pushed", fmt.Sprintf("%s: packet %s is in the sample but was never pushed\n%s", when, desc(k), history()))
				return
			}
		}
		for i := 1; i < len(run); i++ {
			if run[i] != run[i-1]+1 {
				res.violate("sample-not-contiguous-run", fmt.Sprintf("%s: %s is followed by %s inside one sample\n%s", when, desc(run[i-1]), desc(run[i]), history()))
				return
			}
		}
		for _, k := range run {
			if pk[k].ts != pk[run[0]].ts {
				res.violate("sample-mixes-timestamps", fmt.Sprintf("%s: %s and %s are in one sample\n%s", when, desc(run[0]), desc(k), history()))
				return
			}
		}
		if s.PacketTimestamp != pk[run[0]].ts {
			res.violate("sample-timestamp-differs", fmt.Sprintf("%s: Sample.PacketTimestamp %d, its packets carry %d\n%s", when, s.PacketTimestamp, pk[run[0]].ts, history()))
			return
		}
		if !pk[run[0]].head {
			res.violate("sample-does-not-start-at-partition-head", fmt.Sprintf("%s: first packet %s is not a partition head\n%s", when, desc(run[0]), history()))
			return
		}
		for _, k := range run {
			if inSample[k] != 0 {
				cls := "packet-in-two-samples"
				if keptAfterEmission[k] > 0 {
					cls += ":pushed-more-than-once" // the builder took another copy of a packet it had already emitted
				}
				res.violate(cls, fmt.Sprintf("%s: packet %s is in sample %d and again in sample %d (pushed %d time(s))\n%s", when, desc(k), inSample[k], len(emitted)+1, arrivals[k], history()))
				return
			}
		}
		if run[0] <= lastMax {
			res.violate("samples-out-of-order", fmt.Sprintf("%s: sample starts at %s after a sample that ended at %s\n%s", when, desc(run[0]), desc(lastMax), history()))
			return
		}
		for _, k := range run {
			inSample[k] = len(emitted) + 1
		}
		lastMax = run[len(run)-1]
		emitted = append(emitted, c31Emitted{first: run[0], last: run[len(run)-1], frame: pk[run[0]].frame, when: when})
	}

	firstPushed := -1
	maxSeen := -1
	disp := 0 // largest distance by which a packet arrived behind a later one
	pops := 0
	func() {
		defer func() {
			if r := recover(); r != nil {
				st := strings.Split(string(debug.Stack()), "\n")
				if len(st) > 30 {
					st = st[:30]
				}
				res.violate("samplebuilder-panicked", fmt.Sprintf("%v\n%s\n%s", r, strings.Join(st, "\n"), history()))
			}
		}()
		sb := samplebuilder.New(c.MaxLate, c31Depack{}, 90000, opts...)
		pop := func(when string) bool {
			pops++
			s := sb.Pop()
			if s == nil {
				return false
			}
			check(s, when)
			return true
		}
		for di, d := range c.Delivery {
			if d.K < 0 || d.K >= n {
				continue
			}
			p := pk[d.K]
			if firstPushed < 0 {
				firstPushed = d.K
			}
			if maxSeen-d.K > disp {
				disp = maxSeen - d.K
			}
			if d.K > maxSeen {
				maxSeen = d.K
			}
			arrivals[d.K]++
			logf("push %s", desc(d.K))
			rel0 := released
			sb.Push(&rtp.Packet{Header: rtp.Header{Version: 2, PayloadType: 96, SequenceNumber: p.seq, Timestamp: p.ts, Marker: p.tail, SSRC: 0x31},
				Payload: append([]byte{}, p.payload...)})
			if arrivals[d.K] > 1 && released > rel0 {
				refused[d.K]++ // a repeated copy the builder gave back at once
			} else if arrivals[d.K] > 1 && inSample[d.K] != 0 {
				// a copy that arrived after the packet had been emitted, and was kept: only then can the
				// second emission be the second copy (copies that arrive while the first one is still
				// buffered share its slot)
				keptAfterEmission[d.K]++
			}
			when := fmt.Sprintf("pop after push %d", di)
			switch {
			case d.Pops < 0:
				for i := 0; i < n+2 && res.Verdict == "ok" && pop(when); i++ {
				}
			default:
				for i := 0; i < d.Pops && i < 8 && res.Verdict == "ok"; i++ {
					pop(when)
				}
			}
			if res.Verdict != "ok" {
				return
			}
		}
		logf("flush")
		sb.Flush()
		drained := false
		for i := 0; i < n+3; i++ {
			if res.Verdict != "ok" {
				return
			}
			if !pop("pop after flush") {
				drained = true
				break
			}
		}
		if !drained {
			res.violate("pop-never-drains", fmt.Sprintf("%d Pop calls after Flush all returned a sample (%d packets were pushed)\n%s", n+3, len(c.Delivery), history()))
		}
	}()

	// completeness clause
	lossFree, dupFree := true, true
	for k := 0; k < n; k++ {
		if arrivals[k] == 0 {
			lossFree = false
		}
		if arrivals[k] > 1 {
			dupFree = false
		}
	}
	maxSpan := 0
	for f, fr := range c.Frames {
		span := frameLast[f] - frameFirst[f] + 1
		if fr.NoTail {
			span++ // the boundary is only visible once the next frame's first packet is there
		}
		if span > maxSpan {
			maxSpan = span
		}
	}
	reordered := disp > 0
	// with WithMaxTimeDelay a frame may be given up once the buffered packets span more than the
	// delay in RTP time; a stream whose whole timestamp range is at most half the delay is never
	// "too old", so completeness is still owed there
	noTimeLimit := c.MaxTimeDelayMs == 0
	if !noTimeLimit && len(c.Frames) > 0 && 2*uint64(c.TSStep)*uint64(len(c.Frames)) <= 90*uint64(c.MaxTimeDelayMs) {
		noTimeLimit = true
		res.stat("runs_with_time_delay_longer_than_the_stream", 1)
	}
	guaranteed := n > 0 && lossFree && dupFree && noTimeLimit && disp+maxSpan <= int(c.MaxLate)
	weakOnly := n > 0 && lossFree && dupFree && noTimeLimit && disp < int(c.MaxLate) && !guaranteed
	if res.Verdict == "ok" && (guaranteed || weakOnly) {
		for f, fr := range c.Frames {
			if frameFirst[f] < firstPushed {
				continue // the builder learns where the stream starts from the first packet it is given
			}
			if fr.NoTail && f == len(c.Frames)-1 {
				continue // never delimited
			}
			missing := -1
			for k := frameFirst[f]; k <= frameLast[f]; k++ {
				if inSample[k] == 0 {
					missing = k
					break
				}
			}
			if guaranteed {
				res.stat("complete_frames_demanded", 1)
				if missing >= 0 {
					res.violate("complete-frame-not-emitted-after-flush", fmt.Sprintf("loss-free, duplicate-free delivery, largest reordering distance %d, longest frame span %d, max_late %d, no max time delay: frame %d (packets #%d..#%d) is complete but packet %s is in no sample\n%s",
						disp, maxSpan, c.MaxLate, f, frameFirst[f], frameLast[f], desc(missing), history()))
					break
				}
				if inSample[frameFirst[f]] != inSample[frameLast[f]] {
					res.stat("complete_frames_emitted_as_several_samples", 1)
				}
			} else if missing >= 0 {
				res.stat("frames_lost_when_only_reordering_distance_is_below_max_late", 1)
			}
		}
	}

	res.stat("packets_pushed", int64(len(c.Delivery)))
	res.stat("samples_emitted", int64(len(emitted)))
	res.stat("pop_calls", int64(pops))
	res.stat("packets_released", int64(released))
	if guaranteed {
		res.stat("runs_with_completeness_demanded", 1)
	}
	if !lossFree {
		res.stat("runs_with_loss", 1)
	}
	if !dupFree {
		res.stat("runs_with_duplicates", 1)
	}
	if reordered {
		res.stat("runs_with_reordering", 1)
	}
	if c.MaxTimeDelayMs > 0 {
		res.stat("runs_with_max_time_delay", 1)
	}
	plainShape := true
	for _, fr := range c.Frames {
		if fr.NoTail || fr.Heads != 0 {
			plainShape = false
		}
	}
	if plainShape {
		res.stat("runs_all_frames_tail_flagged_and_single_head", 1)
	}
	seqWrap := n > 0 && int(c.StartSeq)+n > 65536
	tsWrap := len(c.Frames) > 0 && uint64(c.StartTS)+uint64(c.TSStep)*uint64(len(c.Frames)-1) > 0xffffffff
	if seqWrap {
		res.stat("runs_with_sequence_wrap", 1)
	}
	if tsWrap {
		res.stat("runs_with_timestamp_wrap", 1)
	}
	res.Sig = vfSig(lines)
	if len(emitted) >= 2 && n >= 3 {
		shape := []string{fmt.Sprint(c.MaxLate, c.MaxTimeDelayMs > 0, seqWrap, tsWrap)}
		for _, fr := range c.Frames {
			shape = append(shape, fmt.Sprint(fr.Packets, fr.NoTail, fr.Heads))
		}
		for _, d := range c.Delivery {
			shape = append(shape, fmt.Sprint(d.K, d.Pops))
		}
		res.Nontrivial = vfSig(shape)
	}
	if len(lines) > 80 {
		lines = append(lines[:80], fmt.Sprintf("... %d more events", len(lines)-80))
	}
	res.Log = lines
}

func init() {
	vfRegister(&vfProp{
		ID: "C31", Level: "exploration", ReplayClass: "exact",
		Rule: "case = 1-12 frames {1-4 (15% of cases: 1-12) packets, 9-40 payload bytes; in 60% of the cases 15% of the frames have no tail flag and the partition-head flag is on the first / every (20%) / every second (10%) packet, in 40% every frame is tail-flagged with one head}, start sequence number (60% within the stream's length of 65535), start timestamp (40% within the stream's length of 2^32), timestamp step from {1, 90, 960, 3000, 90000, 2^28}, max_late 1-60, WithMaxTimeDelay unset (70%) or 1-500 ms; link derived from delivery_seed: loss 0/5/20%, duplication 0/10/25%, reorder window 0-12 packets, in 20% of the cases 1-3 stale duplicates max_late+9..40 packets behind (max_late 1-4 in half of those); Pop never / until nil after every Push / 1-3 times after 40% of the Pushes; final Flush and Pop until nil; non-trivial = >=3 packets and >=2 samples emitted, distinct = hash of (frame shapes, max_late, max-time-delay used, wraps, delivery order with pops)",
		Real: []string{"pkg/media/samplebuilder (New, Push, Pop, Flush, WithMaxTimeDelay, WithPacketReleaseHandler)", "pkg/media.Sample", "pion/rtp Packet"},
		Stub: []string{"the depacketizer is a harness codec (payload = frame id, index, head/tail flags, length, filler; Unmarshal returns the payload unchanged)", "the link is the simulated packet stream (pktsim)"},
		Assumptions: []string{
			"fewer than 30000 packets per stream, so a 16-bit sequence number identifies a packet",
			"frames have pairwise distinct timestamps (timestamp step >= 1, at most 12 frames)",
			"the packet release handler overwrites the released payload (packets are recycled), so a sample built from a released packet is seen as unattributable bytes",
			"completeness is demanded only when delivery is loss-free and duplicate-free, WithMaxTimeDelay is unset and (largest reordering distance + longest frame span in packets, +1 for a frame delimited only by the next frame's timestamp) <= max_late: a frame longer than the max_late window cannot be held by design; cases where only the reordering distance is below max_late are counted in frames_lost_when_only_reordering_distance_is_below_max_late",
			"frames with a packet sent before the first packet pushed are not demanded (the builder learns the start of the stream from its first packet); a last frame without tail flag is never delimited and not demanded",
			"'frame emitted' means every packet of the frame is in some emitted sample",
			"Flush is only called at the end of the stream",
		},
		Shrink: []string{"delivery", "frames"},
		Gen:    c31Gen, Run: c31Run,
	})
}
