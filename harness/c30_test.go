//go:build !js

package webrtc

// C30 (Engine B): no remote input can crash the process.
//
// The remote peer is hostile. Three kinds of runs, all in a fake-time bubble so that the work
// a PeerConnection does in the background after a call returned (operations queue, transports
// starting, receivers starting, undeclared-SSRC probing) runs to quiescence inside the run:
//
//	sdp  : a valid browser-like or pion description is mutated with a line grammar (delete /
//	       duplicate / swap / truncate lines, boundary numbers, hostile attribute lines, m-line
//	       rewrites, raw bytes) and applied as offer (then CreateAnswer + SetLocalDescription, and
//	       a second mutated re-offer) or as answer to the victim's own offer, under each
//	       SDPSemantics, with or without local tracks / transceivers / data channels.
//	cand : mutated candidate strings through AddICECandidate on a victim with a remote description.
//	rtp  : a really connected pair; the hostile peer then puts arbitrary RTP and RTCP on the
//	       wire, protected with SRTP/SRTCP contexts keyed like its own transport (so the victim
//	       authenticates and parses them): unknown SSRCs, any payload type, mid/rid/rrid header
//	       extensions with hostile values, truncated and oversized packets, compound RTCP junk.
//
// Oracle: the process survives. A panic on the calling goroutine is caught and reported with
// the call's name; a panic on one of the connection's goroutines kills the worker, which the
// runner reports with the panic message and first pion frame (the case was recorded before
// the run started, so the replay file is complete).

import (
	"encoding/binary"
	"encoding/json"
	"fmt"
	"runtime/debug"
	"strings"
	"testing"
	"time"

	"github.com/pion/rtp"
	"github.com/pion/srtp/v3"
)

type c30Mut struct {
	Op  int    `json:"op"`
	A   int    `json:"a"`
	B   int    `json:"b"`
	Lit string `json:"lit,omitempty"`
}

type c30Case struct {
	Kind      string   `json:"kind"`             // sdp | cand | rtp
	Semantics int      `json:"semantics"`        // 0 unified, 1 plan-b, 2 unified with fallback
	Local     int      `json:"local"`            // victim's own state: 0 nothing, 1 tracks, 2 recvonly transceivers + dc, 3 tracks + dc
	Codecs    int      `json:"codecs,omitempty"` // victim's MediaEngine: 0 pion's defaults, 1 Opus only, 2 VP8 only (sections of the other kind share no codec)
	AsAnswer  bool     `json:"as_answer,omitempty"`
	Base      int      `json:"base"` // which valid description is mutated
	BaseSeed  uint64   `json:"base_seed"`
	Muts      []c30Mut `json:"muts"`
	Muts2     []c30Mut `json:"muts2,omitempty"` // second, re-offered description
	Cands     []string `json:"cands,omitempty"`
	Pkts      [][]byte `json:"pkts,omitempty"`  // rtp: raw RTP packets (before SRTP)
	Rtcps     [][]byte `json:"rtcps,omitempty"` // rtp: raw RTCP packets (before SRTCP)
	NetSeed   uint64   `json:"net_seed"`
}

var c30Numbers = []string{"0", "1", "-1", "65535", "65536", "2147483647", "2147483648", "4294967295", "4294967296", "18446744073709551615", "99999999999999999999", "", "0x10", "1e9", "٣"}

var c30Lines = []string{
	"a=ssrc:1234 cname:x", "a=ssrc:1234 msid:s t", "a=ssrc:1234 msid:s", "a=ssrc:1234 msid:", "a=ssrc:1234", "a=ssrc:abc cname:x", "a=ssrc: cname:x", "a=ssrc:4294967296 cname:x",
	"a=ssrc-group:FID 1234 5678", "a=ssrc-group:FID 1234", "a=ssrc-group:FID", "a=ssrc-group:SIM 1 2 3", "a=ssrc-group:FEC-FR 1234 9", "a=ssrc-group:FID x y", "a=ssrc-group:", "a=ssrc-group:FID 1234 1234",
	"a=rid:h send", "a=rid: send", "a=rid:h", "a=rid:h recv", "a=rid:h send pt=96;max-width=1", "a=rid:" + strings.Repeat("r", 300) + " send",
	"a=simulcast:send h;m;l", "a=simulcast:recv h", "a=simulcast:send", "a=simulcast:", "a=simulcast:send ~h;m,n", "a=simulcast:send h recv l",
	"a=msid:- ", "a=msid", "a=msid:s", "a=msid:s t u", "a=msid: t", "a=mid:", "a=mid", "a=mid:0", "a=mid:" + strings.Repeat("m", 200),
	"a=group:BUNDLE", "a=group:BUNDLE 0 0 0", "a=group:BUNDLE nonexistent", "a=group:LS 0 1", "a=group:",
	"a=extmap:0 urn:ietf:params:rtp-hdrext:sdes:mid", "a=extmap:99999 urn:ietf:params:rtp-hdrext:sdes:mid", "a=extmap:1", "a=extmap: urn:x", "a=extmap:1/sendonly urn:ietf:params:rtp-hdrext:sdes:rtp-stream-id",
	"a=extmap:2 urn:ietf:params:rtp-hdrext:sdes:repaired-rtp-stream-id", "a=extmap:15 urn:ietf:params:rtp-hdrext:sdes:mid", "a=extmap:-1 urn:x", "a=extmap-allow-mixed",
	"a=rtpmap:96", "a=rtpmap:96 ", "a=rtpmap:300 VP8/90000", "a=rtpmap:96 VP8", "a=rtpmap:96 VP8/", "a=rtpmap:96 VP8/0", "a=rtpmap:96 /90000", "a=rtpmap:97 rtx/90000", "a=rtpmap:x VP8/90000", "a=rtpmap:96 opus/48000/99999",
	"a=fmtp:96 apt=", "a=fmtp:97 apt=97", "a=fmtp:97 apt=999", "a=fmtp:97 apt=96", "a=fmtp:96", "a=fmtp: x", "a=fmtp:96 ;;;=;", "a=fmtp:96 profile-level-id=zz;packetization-mode=x", "a=fmtp:96 profile-id=99999999999",
	"a=rtcp-fb:* nack", "a=rtcp-fb:96", "a=rtcp-fb:96 ", "a=rtcp-fb:x nack pli", "a=rtcp-fb:96 nack pli extra",
	"a=sctp-port:", "a=sctp-port:99999", "a=sctp-port:-1", "a=sctpmap:5000 webrtc-datachannel 1024", "a=max-message-size:-1", "a=max-message-size:99999999999999999999", "a=max-message-size:0",
	"a=setup:holdconn", "a=setup:", "a=setup:active", "a=setup:passive", "a=setup:actpass", "a=fingerprint:sha-256", "a=fingerprint: ", "a=fingerprint:sha-256 ZZ", "a=fingerprint:md2 00", "a=fingerprint:sha-256 " + strings.Repeat("AB:", 31) + "AB",
	"a=ice-ufrag:", "a=ice-pwd:", "a=ice-ufrag:x", "a=ice-lite", "a=ice-options:trickle renomination", "a=end-of-candidates",
	"a=candidate:1 1 udp 2130706431 10.0.2.9 5000 typ host", "a=candidate:1 1 udp 2130706431 10.0.2.9 99999 typ host", "a=candidate:1 1 tcp 1 10.0.2.9 9 typ host tcptype", "a=candidate:", "a=candidate:1 1 udp x y z typ", "a=candidate:1 1 udp 1 ::1 5000 typ srflx raddr", "a=candidate:1 1 udp 1 foo.local 5000 typ host",
	"m=video 9 UDP/TLS/RTP/SAVPF", "m=video 9 UDP/TLS/RTP/SAVPF 96 96 96", "m=audio 9 RTP/AVP 0", "m=audio 0 UDP/TLS/RTP/SAVPF 111", "m=application 9 DTLS/SCTP 5000", "m=application 0 UDP/DTLS/SCTP webrtc-datachannel", "m=application 9 UDP/DTLS/SCTP webrtc-datachannel",
	"m=video 9 UDP/TLS/RTP/SAVPF 999", "m=video", "m=", "m=text 9 RTP/AVP 98", "m=video 9/2 UDP/TLS/RTP/SAVPF 96", "m=video 65536 UDP/TLS/RTP/SAVPF 96",
	"c=IN IP4", "c=IN IP6 ::", "c=", "b=AS:99999999999", "b=TIAS:", "t=", "o=- x y IN IP4 0", "o=", "s=", "v=1", "i=", "a=", "a=:", "a=sendrecv", "a=sendonly", "a=recvonly", "a=inactive", "a=rtcp-mux", "a=rtcp-rsize", "a=rtcp:9 IN IP4 0.0.0.0",
	"a=bundle-only", "a=msid-semantic: WMS", "a=identity:x", "a=crypto:1 AES_CM_128_HMAC_SHA1_80 inline:x", "a=imageattr:96 send", "a=framerate:x", "a=ptime:-1", "a=maxptime:",
}

func c30GenMuts(r *vfRand, n int) []c30Mut {
	var out []c30Mut
	for i := 0; i < n; i++ {
		m := c30Mut{Op: r.Intn(12), A: r.Intn(100000), B: r.Intn(100000)}
		switch m.Op {
		case 3:
			m.Lit = vfPick(r, c30Numbers)
		case 5, 6:
			m.Lit = vfPick(r, c30Lines)
		case 7:
			m.Lit = string(r.Bytes(r.Range(1, 6)))
		}
		out = append(out, m)
	}
	return out
}

// c30Mutate applies the mutations to an SDP text.
func c30Mutate(sdp string, muts []c30Mut) string {
	lines := strings.Split(strings.TrimRight(sdp, "\r\n"), "\r\n")
	for _, m := range muts {
		if len(lines) == 0 {
			lines = []string{"v=0"}
		}
		i := m.A % len(lines)
		switch m.Op {
		case 0: // delete
			lines = append(lines[:i:i], lines[i+1:]...)
		case 1: // duplicate somewhere
			j := m.B % (len(lines) + 1)
			l := lines[i]
			lines = append(lines[:j:j], append([]string{l}, lines[j:]...)...)
		case 2: // swap
			j := m.B % len(lines)
			lines[i], lines[j] = lines[j], lines[i]
		case 3: // a number becomes a boundary value
			f := strings.FieldsFunc(lines[i], func(c rune) bool { return c == ' ' || c == ':' || c == '/' || c == ';' || c == '=' })
			var nums []string
			for _, t := range f {
				if t != "" && t[0] >= '0' && t[0] <= '9' {
					nums = append(nums, t)
				}
			}
			if len(nums) > 0 {
				lines[i] = strings.Replace(lines[i], nums[m.B%len(nums)], m.Lit, 1)
			}
		case 4: // truncate
			if n := len(lines[i]); n > 0 {
				lines[i] = lines[i][:m.B%n]
			}
		case 5: // insert a hostile line
			j := m.B % (len(lines) + 1)
			lines = append(lines[:j:j], append([]string{m.Lit}, lines[j:]...)...)
		case 6: // replace by a hostile line
			lines[i] = m.Lit
		case 7: // raw bytes into a line
			p := 0
			if n := len(lines[i]); n > 0 {
				p = m.B % n
			}
			lines[i] = lines[i][:p] + m.Lit + lines[i][p:]
		case 8: // drop everything after this line
			lines = lines[:i+1]
		case 11: // the section's direction changes (and it announces a source)
			lo := i
			for lo > 0 && !strings.HasPrefix(lines[lo], "m=") {
				lo--
			}
			for k := lo; k < len(lines) && (k == lo || !strings.HasPrefix(lines[k], "m=")); k++ {
				switch lines[k] {
				case "a=recvonly", "a=inactive", "a=sendrecv", "a=sendonly":
					lines[k] = []string{"a=sendonly", "a=sendrecv", "a=recvonly", "a=inactive"}[m.B%4]
					if m.B%4 < 2 {
						lines = append(lines[:k+1:k+1], append([]string{fmt.Sprintf("a=ssrc:%d cname:hostile", 4000+m.B%1000), fmt.Sprintf("a=ssrc:%d msid:hs ht", 4000+m.B%1000)}, lines[k+1:]...)...)
					}
				}
			}
		case 10: // every codec of one section becomes one the victim does not know
			lo := i
			for lo > 0 && !strings.HasPrefix(lines[lo], "m=") {
				lo--
			}
			for k := lo; k < len(lines) && (k == lo || !strings.HasPrefix(lines[k], "m=")); k++ {
				if strings.HasPrefix(lines[k], "a=rtpmap:") {
					if f := strings.SplitN(lines[k], " ", 2); len(f) == 2 {
						lines[k] = f[0] + " X" + f[1]
					}
				}
			}
		case 9: // m-line: port 0 / other protocol / no formats
			for k := 0; k < len(lines); k++ {
				j := (i + k) % len(lines)
				if strings.HasPrefix(lines[j], "m=") {
					f := strings.Fields(lines[j])
					switch m.B % 4 {
					case 0:
						if len(f) > 1 {
							f[1] = "0"
						}
					case 1:
						if len(f) > 2 {
							f[2] = []string{"RTP/AVP", "UDP/TLS/RTP/SAVP", "DTLS/SCTP", "TCP/DTLS/SCTP", "x"}[m.A%5]
						}
					case 2:
						if len(f) > 3 {
							f = f[:3]
						}
					case 3:
						f[0] = "m=" + []string{"audio", "video", "application", "text", "", "VIDEO"}[m.A%6]
					}
					lines[j] = strings.Join(f, " ")
					break
				}
			}
		}
	}
	return strings.Join(lines, "\r\n") + "\r\n"
}

// c30BrowserExtras turns a generated foreign offer into something closer to what browsers send
// in the corners this property cares about: RTX pairs with ssrc-groups, simulcast rids,
// Plan-B style sections with several sources.
func c30BrowserExtras(r *vfRand, sdp string) string {
	lines := strings.Split(strings.TrimRight(sdp, "\r\n"), "\r\n")
	var out []string
	for i, l := range lines {
		out = append(out, l)
		last := i == len(lines)-1 || strings.HasPrefix(lines[i+1], "m=")
		if !last {
			continue
		}
		// end of a section
		sec := ""
		for k := i; k >= 0; k-- {
			if strings.HasPrefix(lines[k], "m=") {
				sec = lines[k]
				break
			}
		}
		if !strings.HasPrefix(sec, "m=video") && !strings.HasPrefix(sec, "m=audio") {
			continue
		}
		switch r.Intn(5) {
		case 0: // RTX pair
			a, b := 200000+r.Intn(1000), 300000+r.Intn(1000)
			out = append(out, fmt.Sprintf("a=ssrc-group:FID %d %d", a, b), fmt.Sprintf("a=ssrc:%d cname:c", a), fmt.Sprintf("a=ssrc:%d msid:ms%d tr%d", a, i, i), fmt.Sprintf("a=ssrc:%d cname:c", b), fmt.Sprintf("a=ssrc:%d msid:ms%d tr%d", b, i, i))
		case 1: // simulcast
			out = append(out, "a=extmap:10 urn:ietf:params:rtp-hdrext:sdes:rtp-stream-id", "a=extmap:11 urn:ietf:params:rtp-hdrext:sdes:repaired-rtp-stream-id", "a=rid:h send", "a=rid:m send", "a=rid:l send", "a=simulcast:send h;m;l")
		case 2: // plan-b: several sources in one section
			for k := 0; k < 3; k++ {
				s := 400000 + r.Intn(100000)
				out = append(out, fmt.Sprintf("a=ssrc:%d cname:pb", s), fmt.Sprintf("a=ssrc:%d msid:pbs%d pbt%d", s, k, k))
			}
		}
	}
	return strings.Join(out, "\r\n") + "\r\n"
}

func c30Gen(seed uint64, idx, total int, tier string) any {
	r := vfNewRand(seed, "c30")
	c := &c30Case{Semantics: r.Intn(3), Local: r.Intn(4), Codecs: vfPick(r, []int{0, 0, 0, 1, 2}), Base: r.Intn(6), BaseSeed: r.U64(), NetSeed: r.U64()}
	switch x := r.Intn(12); {
	case x >= 10:
		// a real peer whose descriptions are mutated on the way: the connection can come up, so the
		// background work runs against live transports
		c.Kind = "live"
		c.Muts = c30GenMuts(r, vfPick(r, []int{1, 1, 2, 3}))
		if r.Bool(0.5) {
			c.Muts[0].Op = vfPick(r, []int{10, 11, 5, 6})
			if c.Muts[0].Op == 5 || c.Muts[0].Op == 6 {
				c.Muts[0].Lit = vfPick(r, c30Lines)
			}
		}
	case x < 7:
		c.Kind = "sdp"
		c.AsAnswer = r.Bool(0.3)
		c.Muts = c30GenMuts(r, vfPick(r, []int{0, 1, 1, 2, 3, 5, 8}))
		if r.Bool(0.4) {
			c.Muts2 = c30GenMuts(r, r.Range(1, 5))
		}
		if r.Bool(0.3) {
			c.Cands = c30GenCands(r, r.Range(1, 4))
		}
	case x < 8:
		c.Kind = "cand"
		c.Cands = c30GenCands(r, r.Range(2, 10))
	default:
		c.Kind = "rtp"
		c.Codecs = 0 // (the pair has to negotiate the hostile peer's tracks)
		c.Pkts, c.Rtcps = c30GenPackets(r)
	}
	return c
}

func c30GenCands(r *vfRand, n int) []string {
	base := []string{"candidate:1 1 udp 2130706431 10.0.2.9 5000 typ host", "candidate:2 1 udp 1694498815 1.2.3.4 6000 typ srflx raddr 10.0.2.9 rport 5000",
		"candidate:3 1 tcp 1518280447 10.0.2.9 9 typ host tcptype active", "candidate:4 1 udp 41885439 5.6.7.8 7000 typ relay raddr 1.2.3.4 rport 6000 generation 0 ufrag abcd network-id 1",
		"candidate:5 1 udp 2130706431 abcdef01-2345-6789-abcd-ef0123456789.local 5000 typ host", "candidate:6 1 udp 2130706431 fe80::1 5000 typ host"}
	var out []string
	for i := 0; i < n; i++ {
		s := vfPick(r, base)
		for k := r.Intn(4); k > 0; k-- {
			f := strings.Fields(s)
			if len(f) == 0 {
				break
			}
			j := r.Intn(len(f))
			switch r.Intn(6) {
			case 0:
				f[j] = vfPick(r, c30Numbers)
			case 1:
				f = append(f[:j:j], f[j+1:]...)
			case 2:
				f = append(f, vfPick(r, []string{"typ", "raddr", "rport", "tcptype", "generation", "ufrag", "x", ""}))
			case 3:
				f[j] = f[j] + string(r.Bytes(2))
			case 4:
				f = f[:j]
			case 5:
				f[j] = vfPick(r, []string{"host", "srflx", "prflx", "relay", "udp", "tcp", "UDP", "ssltcp", "::", "0.0.0.0", "256.1.1.1", "[::1]"})
			}
			s = strings.Join(f, " ")
		}
		if r.Bool(0.15) {
			s = vfPick(r, []string{"", "candidate:", "candidate", ":", "a=candidate:1 1 udp 1 1.1.1.1 1 typ host", strings.Repeat("9", 400)})
		}
		out = append(out, s)
	}
	return out
}

// c30GenPackets builds hostile RTP and RTCP packets (plaintext, before SRTP protection).
func c30GenPackets(r *vfRand) (rtps, rtcps [][]byte) {
	n := r.Range(5, 40)
	for i := 0; i < n; i++ {
		cc := vfPick(r, []int{0, 0, 0, 1, 15})
		b := []byte{0x80 | byte(cc), byte(vfPick(r, []int{96, 97, 98, 100, 111, 0, 8, 63, 64, 95, 127, r.Intn(128)}))}
		if r.Bool(0.3) {
			b[1] |= 0x80
		}
		b = binary.BigEndian.AppendUint16(b, uint16(r.Intn(65536)))
		b = binary.BigEndian.AppendUint32(b, uint32(r.U64()))
		// SSRC: a handful of values so that streams repeat; some chosen at run time (negative markers)
		b = binary.BigEndian.AppendUint32(b, uint32(vfPick(r, []int{1, 2, 3, 4, 0, 0xFFFFFFFF, 5000 + r.Intn(3)})))
		for k := 0; k < cc; k++ {
			b = binary.BigEndian.AppendUint32(b, uint32(r.U64()))
		}
		if r.Bool(0.6) {
			b[0] |= 0x10
			// one-byte or two-byte header extension carrying mid / rid / rrid-like values under ids 1..15
			var ext []byte
			two := r.Bool(0.2)
			for k := r.Intn(4); k >= 0; k-- {
				id := byte(r.Range(1, 15))
				val := []byte(vfPick(r, []string{"0", "1", "2", "h", "m", "l", "video", "", "x", strings.Repeat("z", 16), "\x00", "9"}))
				if two {
					ext = append(ext, id, byte(len(val)))
					ext = append(ext, val...)
				} else {
					if len(val) == 0 || len(val) > 16 {
						val = []byte("0")
					}
					ext = append(ext, id<<4|byte(len(val)-1))
					ext = append(ext, val...)
				}
			}
			for len(ext)%4 != 0 {
				ext = append(ext, 0)
			}
			prof := uint16(0xBEDE)
			if two {
				prof = 0x1000
			}
			if r.Bool(0.1) {
				prof = uint16(r.Intn(65536))
			}
			words := len(ext) / 4
			if r.Bool(0.1) {
				words = r.Intn(70000) % 65536 // length lies
			}
			b = binary.BigEndian.AppendUint16(b, prof)
			b = binary.BigEndian.AppendUint16(b, uint16(words))
			b = append(b, ext...)
		}
		b = append(b, r.Bytes(vfPick(r, []int{0, 1, 2, 3, 20, 200, 1200}))...)
		if r.Bool(0.15) {
			b[0] |= 0x20
			b = append(b, byte(vfPick(r, []int{0, 1, 4, 255})))
		}
		if r.Bool(0.1) && len(b) > 12 {
			b = b[:12+r.Intn(len(b)-12)]
		}
		rtps = append(rtps, b)
	}
	m := r.Range(2, 15)
	for i := 0; i < m; i++ {
		var b []byte
		for k := r.Range(1, 3); k > 0; k-- {
			pt := byte(vfPick(r, []int{200, 201, 202, 203, 204, 205, 206, 207, 192, 195, 199, 210}))
			cnt := byte(r.Intn(32))
			body := r.Bytes(4 * r.Intn(12))
			if len(body) >= 4 {
				binary.BigEndian.PutUint32(body, uint32(vfPick(r, []int{1, 2, 3, 4, 0, 5000})))
			}
			l := len(body) / 4
			if r.Bool(0.15) {
				l = r.Intn(65536) // length lies
			}
			b = append(b, 0x80|cnt, pt)
			b = binary.BigEndian.AppendUint16(b, uint16(l))
			b = append(b, body...)
		}
		rtcps = append(rtcps, b)
	}
	return
}

// c30Call runs one API call and turns a panic on this goroutine into a violation.
func c30Call(res *vfResult, name string, f func() error) (err error, panicked bool) {
	defer func() {
		if r := recover(); r != nil {
			panicked = true
			st := string(debug.Stack())
			frame := ""
			for _, l := range strings.Split(st, "\n") {
				if strings.HasPrefix(l, "github.com/pion/") && !strings.Contains(l, "/webrtc/v4.c30") && !strings.Contains(l, "/webrtc/v4.vf") {
					frame = strings.TrimPrefix(strings.SplitN(l, "(", 2)[0], "github.com/pion/")
					if !strings.Contains(l, "/webrtc/v4.TestVerif") {
						frame = strings.TrimPrefix(l[:strings.LastIndex(l, "(")], "github.com/pion/")
						break
					}
				}
			}
			msg := fmt.Sprint(r)
			if len(msg) > 120 {
				msg = msg[:120]
			}
			res.violate("panic-in-"+name+": "+msg+" @ "+frame, st)
		}
	}()
	return f(), false
}

func c30Victim(c *c30Case, nw *vfNetSim) (*vfPeer, error) {
	h, _ := nw.addHost("10.0.1.2")
	a, err := vfNewPeer("A", h, func(se *SettingEngine, me *MediaEngine, cfg *Configuration) {
		cfg.SDPSemantics = []SDPSemantics{SDPSemanticsUnifiedPlan, SDPSemanticsPlanB, SDPSemanticsUnifiedPlanWithFallback}[c.Semantics%3]
		switch c.Codecs {
		case 1:
			_ = me.RegisterCodec(RTPCodecParameters{RTPCodecCapability: RTPCodecCapability{MimeType: MimeTypeOpus, ClockRate: 48000, Channels: 2}, PayloadType: 111}, RTPCodecTypeAudio)
		case 2:
			_ = me.RegisterCodec(RTPCodecParameters{RTPCodecCapability: RTPCodecCapability{MimeType: MimeTypeVP8, ClockRate: 90000}, PayloadType: 96}, RTPCodecTypeVideo)
		}
	})
	if err != nil {
		return nil, err
	}
	a.pc.OnTrack(func(tr *TrackRemote, _ *RTPReceiver) {
		go func() {
			buf := make([]byte, 1500)
			for {
				if _, _, e := tr.Read(buf); e != nil {
					return
				}
			}
		}()
	})
	a.pc.OnDataChannel(func(*DataChannel) {})
	switch c.Local {
	case 1, 3:
		t1, _ := NewTrackLocalStaticRTP(RTPCodecCapability{MimeType: MimeTypeVP8, ClockRate: 90000}, "lv", "ls")
		t2, _ := NewTrackLocalStaticRTP(RTPCodecCapability{MimeType: MimeTypeOpus, ClockRate: 48000, Channels: 2}, "la", "ls")
		_, _ = a.pc.AddTrack(t1)
		_, _ = a.pc.AddTrack(t2)
		if c.Local == 3 {
			_, _ = a.pc.CreateDataChannel("ld", nil)
		}
	case 2:
		_, _ = a.pc.AddTransceiverFromKind(RTPCodecTypeVideo, RTPTransceiverInit{Direction: RTPTransceiverDirectionRecvonly})
		_, _ = a.pc.AddTransceiverFromKind(RTPCodecTypeAudio, RTPTransceiverInit{Direction: RTPTransceiverDirectionRecvonly})
		_, _ = a.pc.CreateDataChannel("ld", nil)
	}
	return a, nil
}

func c30Run(t *testing.T, cj []byte, res *vfResult) {
	var c c30Case
	if err := json.Unmarshal(cj, &c); err != nil {
		res.Verdict, res.Detail = "error", err.Error()
		return
	}
	var lines []string
	vfBubble(t, func(t *testing.T) {
		t0 := time.Now()
		nw, err := vfNewNetSim(c.NetSeed, vfNetCfg{BaseDelayUs: 1000})
		if err != nil {
			res.Verdict, res.Detail = "error", err.Error()
			return
		}
		_ = nw.Start()
		a, err := c30Victim(&c, nw)
		if err != nil {
			res.Verdict, res.Detail = "error", err.Error()
			return
		}
		defer func() {
			_, _ = c30Call(res, "Close", func() error { return a.pc.Close() })
			nw.Stop()
			res.SimNs = int64(time.Since(t0))
		}()
		r := vfNewRand(c.BaseSeed, "c30base")
		apply := func(name string, f func() error) bool {
			e, p := c30Call(res, name, f)
			lines = append(lines, fmt.Sprintf("%s -> %v", name, e))
			if e != nil {
				res.stat("calls_returning_an_error", 1)
			} else {
				res.stat("calls_accepted", 1)
			}
			return e == nil && !p
		}
		switch c.Kind {
		case "sdp", "cand":
			fs := sgNewForeignSession(r)
			if c.AsAnswer && c.Kind == "sdp" {
				var offer SessionDescription
				if !apply("CreateOffer", func() (e error) { offer, e = a.pc.CreateOffer(nil); return }) {
					break
				}
				if !apply("SetLocalDescription(offer)", func() error { return a.pc.SetLocalDescription(offer) }) {
					break
				}
				ans := sgForeignAnswer(r, offer.SDP, c.Base, fs)
				ans = c30Mutate(ans, c.Muts)
				apply("SetRemoteDescription(answer)", func() error { return a.pc.SetRemoteDescription(SessionDescription{Type: SDPTypeAnswer, SDP: ans}) })
				vfSettle(3 * time.Second)
			} else {
				offer := sgForeignOffer(r, c.Base, []string{"", "", "text", "nodir", "twoapp", ""}[c.Base%6], fs)
				if c.Base%2 == 1 {
					offer = c30BrowserExtras(r, offer)
				}
				muts := c.Muts
				if c.Kind == "cand" {
					muts = nil
				}
				offer = c30Mutate(offer, muts)
				lines = append(lines, "offer: "+sgSummary(vfParseSDP(offer)))
				if apply("SetRemoteDescription(offer)", func() error { return a.pc.SetRemoteDescription(SessionDescription{Type: SDPTypeOffer, SDP: offer}) }) {
					res.stat("mutated_offers_accepted", 1)
					var answer SessionDescription
					if apply("CreateAnswer", func() (e error) { answer, e = a.pc.CreateAnswer(nil); return }) {
						lines = append(lines, "answer: "+sgSummary(vfParseSDP(answer.SDP)))
						apply("SetLocalDescription(answer)", func() error { return a.pc.SetLocalDescription(answer) })
					}
				}
				vfSettle(3 * time.Second)
				if len(c.Muts2) > 0 {
					re := sgForeignOffer(r, c.Base, "", fs)
					if c.Base%2 == 1 {
						re = c30BrowserExtras(r, re)
					}
					re = c30Mutate(re, c.Muts2)
					if apply("SetRemoteDescription(re-offer)", func() error { return a.pc.SetRemoteDescription(SessionDescription{Type: SDPTypeOffer, SDP: re}) }) {
						var answer SessionDescription
						if apply("CreateAnswer(2)", func() (e error) { answer, e = a.pc.CreateAnswer(nil); return }) {
							apply("SetLocalDescription(answer 2)", func() error { return a.pc.SetLocalDescription(answer) })
						}
					}
					vfSettle(3 * time.Second)
				}
			}
			for i, cs := range c.Cands {
				cs := cs
				mid, idx := "0", uint16(i%3)
				init := ICECandidateInit{Candidate: cs}
				if i%2 == 0 {
					init.SDPMid, init.SDPMLineIndex = &mid, &idx
				}
				apply(fmt.Sprintf("AddICECandidate(%q)", cs), func() error { return a.pc.AddICECandidate(init) })
				res.stat("candidate_strings_tried", 1)
			}
			vfSettle(5 * time.Second)
		case "live":
			hb, _ := nw.addHost("10.0.2.2")
			b, err := vfNewPeer("B", hb, func(se *SettingEngine, me *MediaEngine, cfg *Configuration) {
				cfg.SDPSemantics = []SDPSemantics{SDPSemanticsUnifiedPlan, SDPSemanticsPlanB, SDPSemanticsUnifiedPlanWithFallback}[c.Semantics%3]
			})
			if err != nil {
				res.Verdict, res.Detail = "error", err.Error()
				return
			}
			defer func() { _ = b.pc.Close() }()
			tv, _ := NewTrackLocalStaticRTP(RTPCodecCapability{MimeType: MimeTypeVP8, ClockRate: 90000}, "hv", "hs")
			ta, _ := NewTrackLocalStaticRTP(RTPCodecCapability{MimeType: MimeTypeOpus, ClockRate: 48000, Channels: 2}, "ha", "hs")
			switch c.Base % 3 {
			case 0:
				_, _ = b.pc.AddTrack(tv)
				_, _ = b.pc.AddTrack(ta)
			case 1:
				_, _ = b.pc.AddTransceiverFromKind(RTPCodecTypeVideo, RTPTransceiverInit{Direction: RTPTransceiverDirectionRecvonly})
				_, _ = b.pc.AddTrack(ta)
			case 2:
				_, _ = b.pc.AddTrack(tv)
			}
			_, _ = b.pc.CreateDataChannel("hd", nil)
			off, err := b.pc.CreateOffer(nil)
			if err == nil {
				err = b.pc.SetLocalDescription(off)
			}
			if err != nil {
				res.Verdict, res.Detail = "error", "hostile peer's own offer: "+err.Error()
				return
			}
			full := vfGatherDone(b)
			mutated := c30Mutate(full.SDP, c.Muts)
			lines = append(lines, "offer: "+sgSummary(vfParseSDP(mutated)))
			if apply("SetRemoteDescription(offer)", func() error { return a.pc.SetRemoteDescription(SessionDescription{Type: SDPTypeOffer, SDP: mutated}) }) {
				var answer SessionDescription
				if apply("CreateAnswer", func() (e error) { answer, e = a.pc.CreateAnswer(nil); return }) {
					lines = append(lines, "answer: "+sgSummary(vfParseSDP(answer.SDP)))
					if apply("SetLocalDescription(answer)", func() error { return a.pc.SetLocalDescription(answer) }) {
						if ad := vfGatherDone(a); ad != nil {
							_ = b.pc.SetRemoteDescription(*ad) // (the hostile peer's own trouble does not count)
						}
					}
				}
			}
			if vfWaitFor(15*time.Second, func() bool { return a.pc.ICEConnectionState() == ICEConnectionStateConnected }) {
				res.stat("live_runs_ice_connected", 1)
			}
			vfSettle(3 * time.Second)
			for i := 0; i < 6; i++ {
				_ = tv.WriteRTP(&rtp.Packet{Header: rtp.Header{Version: 2, SequenceNumber: uint16(i), Timestamp: uint32(i) * 3000}, Payload: []byte{1, 2, 3, 4}})
				_ = ta.WriteRTP(&rtp.Packet{Header: rtp.Header{Version: 2, SequenceNumber: uint16(i), Timestamp: uint32(i) * 960}, Payload: []byte{5, 6, 7}})
			}
			vfSettle(5 * time.Second)
		case "rtp":
			hb, _ := nw.addHost("10.0.2.2")
			b, err := vfNewPeer("B", hb, func(se *SettingEngine, me *MediaEngine, cfg *Configuration) {
				cfg.SDPSemantics = []SDPSemantics{SDPSemanticsUnifiedPlan, SDPSemanticsPlanB, SDPSemanticsUnifiedPlanWithFallback}[c.Semantics%3]
			})
			if err != nil {
				res.Verdict, res.Detail = "error", err.Error()
				return
			}
			defer func() { _ = b.pc.Close() }()
			tv, _ := NewTrackLocalStaticRTP(RTPCodecCapability{MimeType: MimeTypeVP8, ClockRate: 90000}, "hv", "hs")
			ta, _ := NewTrackLocalStaticRTP(RTPCodecCapability{MimeType: MimeTypeOpus, ClockRate: 48000, Channels: 2}, "ha", "hs")
			_, _ = b.pc.AddTrack(tv)
			_, _ = b.pc.AddTrack(ta)
			_, _ = b.pc.CreateDataChannel("hd", nil)
			if err := vfConnectPair(b, a); err != nil {
				res.Verdict, res.Detail = "error", "negotiation: "+err.Error()
				return
			}
			if !vfWaitFor(60*time.Second, func() bool {
				return a.pc.ConnectionState() == PeerConnectionStateConnected && b.pc.ConnectionState() == PeerConnectionStateConnected
			}) {
				res.stat("inconclusive_not_connected", 1)
				return
			}
			// the announced SSRCs of B, so that some hostile packets hit existing streams
			var known []uint32
			for _, s := range b.pc.GetSenders() {
				for _, e := range s.GetParameters().Encodings {
					known = append(known, uint32(e.SSRC), uint32(e.RTX.SSRC))
				}
			}
			rtpCtx, err := mdRawSRTPContext(b.pc.dtlsTransport)
			if err != nil {
				res.Verdict, res.Detail = "error", err.Error()
				return
			}
			rtcpCtx, err := mdRawSRTPContext(b.pc.dtlsTransport)
			if err != nil {
				res.Verdict, res.Detail = "error", err.Error()
				return
			}
			fix := func(p []byte, off int) []byte {
				p = append([]byte{}, p...)
				if len(p) >= off+4 && len(known) > 0 {
					if v := binary.BigEndian.Uint32(p[off : off+4]); v >= 1 && v <= 4 {
						binary.BigEndian.PutUint32(p[off:off+4], known[int(v-1)%len(known)])
					}
				}
				return p
			}
			for i, p := range c.Pkts {
				p = fix(p, 8)
				if enc, e := rtpCtx.EncryptRTP(nil, p, nil); e == nil {
					_, _ = b.pc.dtlsTransport.srtpEndpoint.Write(enc)
					res.stat("hostile_rtp_packets_sent", 1)
				} else {
					res.stat("hostile_rtp_packets_unencodable", 1)
				}
				if i < len(c.Rtcps) {
					q := fix(c.Rtcps[i], 4)
					if enc, e := rtcpCtx.EncryptRTCP(nil, q, nil); e == nil {
						_, _ = b.pc.dtlsTransport.srtcpEndpoint.Write(enc)
						res.stat("hostile_rtcp_packets_sent", 1)
					} else {
						res.stat("hostile_rtcp_packets_unencodable", 1)
					}
				}
				if i%5 == 4 {
					vfSettle(20 * time.Millisecond)
				}
			}
			vfSettle(10 * time.Second)
			res.stat("remote_tracks_on_victim", int64(len(a.pc.GetReceivers())))
		default:
			res.Verdict, res.Detail = "error", "unknown kind"
			return
		}
		res.stat("runs_"+c.Kind, 1)
	})
	res.Log = lines
	res.Sig = vfSig(append([]string{string(cj)}, lines...))
	if res.Verdict == "ok" || res.Verdict == "violation" {
		res.Nontrivial = res.Sig
	}
}

var _ = srtp.ProtectionProfileAes128CmHmacSha1_80

func init() {
	vfRegister(&vfProp{
		ID: "C30", Level: "exploration", ReplayClass: "decision-exact",
		Gen: c30Gen, Run: c30Run,
		Rule:        "case = a victim PeerConnection (Unified Plan / Plan B / Unified Plan with fallback; no local state, tracks, recvonly transceivers + data channel, tracks + data channel) and a hostile remote: 70% a valid browser-like description (incl. RTX ssrc-groups, simulcast rids, Plan-B multi-source sections, text sections) with 0-8 grammar mutations applied as offer (then CreateAnswer, SetLocalDescription, optional mutated re-offer) or as answer to the victim's offer, optionally followed by mutated candidate strings; 10% only mutated candidate strings after a valid offer; 20% a really connected peer that then sends 5-40 hostile RTP and 2-15 hostile RTCP packets protected with its own SRTP keys; after every step the bubble runs to quiescence for 3-10 s of fake time so that background work finishes inside the run; non-trivial = the run reached its end, distinct = hash of (case, per-call outcomes)",
		Real:        []string{"the victim PeerConnection with real ICE, DTLS, SCTP, SRTP, operations queue, receivers", "for rtp runs the hostile peer's PeerConnection up to the point where raw packets are written", "vnet"},
		Stub:        []string{"hostile remote: description/candidate/packet generator + mutator", "network: vnet, constant delay", "signaling: in-process"},
		Shrink:      []string{"muts", "muts2", "cands", "pkts", "rtcps"},
		Assumptions: []string{"mutation is grammar-based and seeded, not coverage-guided (the cooperative/synctest binary is not built with coverage instrumentation)"},
	})
}
