//go:build !js

package webrtc

// Engine B core: real PeerConnections inside a synctest bubble on a fault-injecting simulated
// network (pion vnet router + a seeded per-packet fate wrapper), plus small helpers shared by
// the PeerConnection-level harnesses: an independent line-level SDP reader, signaling helpers,
// drain/wait helpers.

import (
	"fmt"
	"github.com/pion/interceptor"
	"net"
	"sort"
	"strconv"
	"strings"
	"sync"
	"testing/synctest"
	"time"

	"github.com/pion/transport/v4"
	"github.com/pion/transport/v4/vnet"
)

// ---------------------------------------------------------------- simulated network

type vfWindow struct {
	FromMs int `json:"from_ms"`
	ToMs   int `json:"to_ms"`
}

type vfNetCfg struct {
	Drop        float64    `json:"drop,omitempty"`
	Dup         float64    `json:"dup,omitempty"`
	Corrupt     float64    `json:"corrupt,omitempty"`
	BaseDelayUs int        `json:"base_delay_us,omitempty"`
	JitterUs    int        `json:"jitter_us,omitempty"`
	Partitions  []vfWindow `json:"partitions,omitempty"`
	// FaultsUntilMs: after this much fake time since the network started, drop/dup/corrupt and
	// partitions stop (delay and jitter stay).
	FaultsUntilMs int `json:"faults_until_ms,omitempty"`
}

type vfNetSim struct {
	seed   uint64
	cfg    vfNetCfg
	start  time.Time
	router *vnet.Router

	mu     sync.Mutex
	ctr    map[string]uint64
	stats  map[string]int64
	closed bool
	links  map[string]chan vfFifoItem
	done   chan struct{} // closed by Stop
	// filter, if set, may rewrite or swallow an outgoing datagram before the fate is drawn
	// (return nil to swallow). from/to are "ip:port" strings.
	filter func(from, to string, p []byte) []byte
}

func vfNewNetSim(seed uint64, cfg vfNetCfg) (*vfNetSim, error) {
	r, err := vnet.NewRouter(&vnet.RouterConfig{CIDR: "10.0.0.0/16", LoggerFactory: vfSilentLoggers()})
	if err != nil {
		return nil, err
	}
	return &vfNetSim{seed: seed, cfg: cfg, start: time.Now(), router: r, ctr: map[string]uint64{}, stats: map[string]int64{}, done: make(chan struct{})}, nil
}

// addHost returns a transport.Net for a host with the given static IPs.
func (n *vfNetSim) addHost(ips ...string) (transport.Net, error) {
	vn, err := vnet.NewNet(&vnet.NetConfig{StaticIPs: ips})
	if err != nil {
		return nil, err
	}
	if err := n.router.AddNet(vn); err != nil {
		return nil, err
	}
	return &vfFaultNet{Net: vn, sim: n}, nil
}

func (n *vfNetSim) Start() error { n.start = time.Now(); return n.router.Start() }

func (n *vfNetSim) Stop() {
	n.mu.Lock()
	if !n.closed {
		close(n.done)
	}
	n.closed = true
	for _, ch := range n.links {
		close(ch)
	}
	n.links = nil
	n.mu.Unlock()
	_ = n.router.Stop()
}

func (n *vfNetSim) stat(k string) {
	n.mu.Lock()
	n.stats[k]++
	n.mu.Unlock()
}

func (n *vfNetSim) faultsActive(elapsedMs int) bool {
	return n.cfg.FaultsUntilMs == 0 || elapsedMs < n.cfg.FaultsUntilMs
}

type vfFifoItem struct {
	at time.Time
	f  func()
}

// fifo delivers the items of one link in submission order, each not before its time.
func (n *vfNetSim) fifo(link string, at time.Time, f func()) {
	n.mu.Lock()
	if n.links == nil {
		n.links = map[string]chan vfFifoItem{}
	}
	ch := n.links[link]
	if ch == nil {
		ch = make(chan vfFifoItem, 4096)
		n.links[link] = ch
		done := n.done
		go func() {
			for it := range ch {
				if d := time.Until(it.at); d > 0 {
					// (not time.Sleep: a link goroutine asleep when the run ends would stay in the finished bubble for good)
					t := time.NewTimer(d)
					select {
					case <-t.C:
					case <-done:
						t.Stop()
						return
					}
				}
				it.f()
			}
		}()
	}
	n.mu.Unlock()
	select {
	case ch <- vfFifoItem{at, f}:
	default:
		n.stat("fifo_overflow_drop")
	}
}

func vfPktKind(p []byte) string {
	if len(p) == 0 {
		return "empty"
	}
	switch b := p[0]; {
	case b <= 3:
		return "stun"
	case b >= 20 && b <= 63:
		return "dtls"
	case b >= 128 && b <= 191:
		if len(p) >= 4 && p[1] >= 192 && p[1] <= 223 {
			return "rtcp"
		}
		return "rtp"
	}
	return "other"
}

// send applies the seeded fate of one datagram and calls deliver (possibly later, possibly twice).
func (n *vfNetSim) send(from, to string, p []byte, deliver func([]byte)) {
	n.mu.Lock()
	if n.closed {
		n.mu.Unlock()
		return
	}
	link := from + ">" + to
	c := n.ctr[link]
	n.ctr[link] = c + 1
	filter := n.filter
	n.mu.Unlock()
	if filter != nil {
		p = filter(from, to, p)
		if p == nil {
			n.stat("filtered")
			return
		}
	}
	el := int(time.Since(n.start) / time.Millisecond)
	kind := vfPktKind(p)
	n.stat("sent_" + kind)
	h := vfH(n.seed, link, c)
	u := func(k uint64) float64 { return float64(vfMix(h+k)>>11) / float64(1<<53) }
	if n.faultsActive(el) {
		for _, w := range n.cfg.Partitions {
			if el >= w.FromMs && el < w.ToMs {
				n.stat("fault_partition_drop")
				return
			}
		}
		if u(1) < n.cfg.Drop {
			n.stat("fault_drop")
			return
		}
	}
	b := append([]byte{}, p...)
	if n.faultsActive(el) && u(2) < n.cfg.Corrupt && len(b) > 0 {
		i := int(vfMix(h+7) % uint64(len(b)))
		b[i] ^= byte(1 << (vfMix(h+8) % 8))
		n.stat("fault_corrupt")
	}
	delay := time.Duration(n.cfg.BaseDelayUs) * time.Microsecond
	if n.cfg.JitterUs > 0 {
		delay += time.Duration(u(3)*float64(n.cfg.JitterUs)) * time.Microsecond
	}
	dup := n.faultsActive(el) && u(4) < n.cfg.Dup
	switch {
	case delay <= 0:
		deliver(b)
	case n.cfg.JitterUs == 0:
		// constant delay: a link is a FIFO (timers that expire at the same fake instant run in no
		// particular order, which would reorder a fault-free link)
		n.stat("delayed")
		n.fifo(link, time.Now().Add(delay), func() { deliver(b) })
	default:
		n.stat("delayed")
		time.AfterFunc(delay, func() { deliver(b) })
	}
	if dup {
		n.stat("fault_dup")
		d2 := delay + time.Duration(1+vfMix(h+9)%20000)*time.Microsecond
		time.AfterFunc(d2, func() { deliver(b) })
	}
}

type vfFaultNet struct {
	transport.Net
	sim *vfNetSim
}

func (f *vfFaultNet) ListenUDP(network string, laddr *net.UDPAddr) (transport.UDPConn, error) {
	c, err := f.Net.ListenUDP(network, laddr)
	if err != nil {
		return nil, err
	}
	return &vfFaultConn{UDPConn: c, sim: f.sim}, nil
}

func (f *vfFaultNet) ListenPacket(network, address string) (net.PacketConn, error) {
	c, err := f.Net.ListenPacket(network, address)
	if err != nil {
		return nil, err
	}
	if uc, ok := c.(transport.UDPConn); ok {
		return &vfFaultConn{UDPConn: uc, sim: f.sim}, nil
	}
	return c, nil
}

type vfFaultConn struct {
	transport.UDPConn
	sim *vfNetSim
}

func (c *vfFaultConn) WriteTo(p []byte, addr net.Addr) (int, error) {
	c.sim.send(c.UDPConn.LocalAddr().String(), addr.String(), p, func(b []byte) { _, _ = c.UDPConn.WriteTo(b, addr) })
	return len(p), nil
}

func (c *vfFaultConn) WriteToUDP(p []byte, addr *net.UDPAddr) (int, error) {
	return c.WriteTo(p, addr)
}

// ---------------------------------------------------------------- independent SDP reader

// vfSDPSection is one m= section, read line by line (not with pion/sdp's object model).
type vfSDPSection struct {
	Kind  string
	Port  int
	Proto string
	Fmts  []string
	Attrs []string // "key" or "key:value" without the leading "a="
	Lines []string
}

type vfSDP struct {
	Origin   string // the o= line
	SessID   string
	SessVer  uint64
	Attrs    []string // session-level attributes
	Sections []*vfSDPSection
	Bad      string // non-empty: first malformed line
}

func vfParseSDP(s string) *vfSDP {
	out := &vfSDP{}
	var cur *vfSDPSection
	lines := strings.Split(strings.ReplaceAll(s, "\r\n", "\n"), "\n")
	for i, l := range lines {
		if l == "" {
			if i != len(lines)-1 {
				out.Bad = fmt.Sprintf("empty line %d", i)
			}
			continue
		}
		if len(l) < 2 || l[1] != '=' {
			if out.Bad == "" {
				out.Bad = "malformed line: " + l
			}
			continue
		}
		v := l[2:]
		switch l[0] {
		case 'o':
			out.Origin = v
			f := strings.Fields(v)
			if len(f) >= 3 {
				out.SessID = f[1]
				out.SessVer, _ = strconv.ParseUint(f[2], 10, 64)
			} else if out.Bad == "" {
				out.Bad = "short o= line"
			}
		case 'm':
			f := strings.Fields(v)
			cur = &vfSDPSection{}
			if len(f) >= 3 {
				cur.Kind = f[0]
				ps := f[1]
				if j := strings.IndexByte(ps, '/'); j >= 0 {
					ps = ps[:j]
				}
				p, err := strconv.Atoi(ps)
				if err != nil && out.Bad == "" {
					out.Bad = "bad port in " + l
				}
				cur.Port = p
				cur.Proto = f[2]
				cur.Fmts = f[3:]
			} else if out.Bad == "" {
				out.Bad = "short m= line"
			}
			out.Sections = append(out.Sections, cur)
		case 'a':
			if cur == nil {
				out.Attrs = append(out.Attrs, v)
			} else {
				cur.Attrs = append(cur.Attrs, v)
			}
		}
		if cur != nil {
			cur.Lines = append(cur.Lines, l)
		}
	}
	if out.Origin == "" && out.Bad == "" {
		out.Bad = "no o= line"
	}
	return out
}

func vfAttrVals(attrs []string, key string) []string {
	var out []string
	for _, a := range attrs {
		if a == key {
			out = append(out, "")
		} else if strings.HasPrefix(a, key+":") {
			out = append(out, a[len(key)+1:])
		}
	}
	return out
}

func vfAttrHas(attrs []string, key string) bool { return len(vfAttrVals(attrs, key)) > 0 }

func (s *vfSDPSection) Mid() (string, bool) {
	v := vfAttrVals(s.Attrs, "mid")
	if len(v) == 0 {
		return "", false
	}
	return v[0], true
}

func (s *vfSDPSection) Direction() []string {
	var out []string
	for _, d := range []string{"sendrecv", "sendonly", "recvonly", "inactive"} {
		for range vfAttrVals(s.Attrs, d) {
			out = append(out, d)
		}
	}
	return out
}

// vfDescToken identifies a description independent of trickled candidates: type, o= line and
// the m-line/mid skeleton.
func vfDescToken(d *SessionDescription) string {
	if d == nil {
		return "<nil>"
	}
	p := vfParseSDP(d.SDP)
	var sk []string
	for _, s := range p.Sections {
		m, _ := s.Mid()
		sk = append(sk, s.Kind+":"+m+":"+strconv.Itoa(s.Port))
	}
	return d.Type.String() + "|" + p.Origin + "|" + strings.Join(sk, ",")
}

// ---------------------------------------------------------------- peers

type vfPeer struct {
	name string
	pc   *PeerConnection
	api  *API

	mu         sync.Mutex
	sigStates  []string // OnSignalingStateChange emissions
	connStates []string // OnConnectionStateChange emissions (order of handler execution)
	iceStates  []string
	negNeeded  []string // signaling state + closed flag observed inside each OnNegotiationNeeded
	cands      []string // OnICECandidate ("nil" for end of gathering)
}

// vfPeerInterceptors: peers created while it is set get pion's default interceptors (NACK
// generator and responder, RTCP reports, TWCC); a worker process runs one case at a time.
var vfPeerInterceptors bool

type vfPeerOpt func(se *SettingEngine, me *MediaEngine, cfg *Configuration)

func vfNewPeer(name string, nw transport.Net, opts ...vfPeerOpt) (*vfPeer, error) {
	se := SettingEngine{}
	se.LoggerFactory = vfSilentLoggers()
	if nw != nil {
		se.SetNet(nw)
	} else {
		// never a real socket inside a bubble (a goroutine in a network poll is not durably
		// blocked and fake time would stop): an unrouted virtual host
		if vn, err := vnet.NewNet(&vnet.NetConfig{StaticIPs: []string{"10.250.0.2"}}); err == nil {
			se.SetNet(vn)
		}
	}
	se.SetICEMulticastDNSMode(1) // disabled
	se.SetNetworkTypes([]NetworkType{NetworkTypeUDP4})
	me := &MediaEngine{}
	cfg := Configuration{}
	defaultCodecs := true
	for _, o := range opts {
		o(&se, me, &cfg)
	}
	if len(me.videoCodecs) > 0 || len(me.audioCodecs) > 0 {
		defaultCodecs = false
	}
	if defaultCodecs {
		if err := me.RegisterDefaultCodecs(); err != nil {
			return nil, err
		}
	}
	apiOpts := []func(*API){WithSettingEngine(se), WithMediaEngine(me)}
	if vfPeerInterceptors {
		ir := &interceptor.Registry{}
		if err := RegisterDefaultInterceptors(me, ir); err != nil {
			return nil, err
		}
		apiOpts = append(apiOpts, WithInterceptorRegistry(ir))
	}
	api := NewAPI(apiOpts...)
	time.Sleep(time.Nanosecond) // PeerConnection ids are time.Now().UnixNano(): keep them distinct
	pc, err := api.NewPeerConnection(cfg)
	if err != nil {
		return nil, err
	}
	p := &vfPeer{name: name, pc: pc, api: api}
	pc.OnSignalingStateChange(func(s SignalingState) {
		p.mu.Lock()
		p.sigStates = append(p.sigStates, s.String())
		p.mu.Unlock()
	})
	pc.OnConnectionStateChange(func(s PeerConnectionState) {
		p.mu.Lock()
		p.connStates = append(p.connStates, s.String())
		p.mu.Unlock()
	})
	pc.OnICEConnectionStateChange(func(s ICEConnectionState) {
		p.mu.Lock()
		p.iceStates = append(p.iceStates, s.String())
		p.mu.Unlock()
	})
	pc.OnNegotiationNeeded(func() {
		st := pc.SignalingState().String()
		if pc.isClosed.Load() {
			st += "+closed"
		}
		p.mu.Lock()
		p.negNeeded = append(p.negNeeded, st)
		p.mu.Unlock()
	})
	return p, nil
}

func (p *vfPeer) snapshot(f func()) {
	p.mu.Lock()
	defer p.mu.Unlock()
	f()
}

// vfSettle lets every goroutine in the bubble run until all are durably blocked, advancing
// fake time by d first (0 = only quiesce).
func vfSettle(d time.Duration) {
	if d > 0 {
		time.Sleep(d)
	}
	synctest.Wait()
}

// vfDrain waits (in fake time, bounded) until the operations queues of the given peers have run
// everything queued so far. IsEmpty() alone is not enough (an operation that is running, e.g.
// startTransports waiting for ICE, is no longer in the list), so the queue's own Done() is used,
// repeated because an emptying chain may enqueue the negotiation-needed check.
func vfDrain(max time.Duration, peers ...*vfPeer) bool {
	ok := true
	for _, p := range peers {
		for round := 0; round < 8; round++ {
			done := make(chan struct{})
			go func(p *vfPeer) { p.pc.ops.Done(); close(done) }(p)
			if !vfWaitFor(max, func() bool {
				select {
				case <-done:
					return true
				default:
					return false
				}
			}) {
				ok = false
			}
			// everything the emptied chain triggered (the negotiation-needed check it may re-enqueue)
			// has run once every goroutine is blocked again; only then look at the queue
			synctest.Wait()
			if p.pc.ops.IsEmpty() && !p.pc.updateNegotiationNeededFlagOnEmptyChain.Load() {
				break
			}
		}
	}
	synctest.Wait()
	return ok
}

// vfWaitFor polls cond in fake time.
func vfWaitFor(max time.Duration, cond func() bool) bool {
	step := 10 * time.Millisecond
	for el := time.Duration(0); ; el += step {
		synctest.Wait()
		if cond() {
			return true
		}
		if el >= max {
			return false
		}
		time.Sleep(step)
		if step < 200*time.Millisecond {
			step *= 2
		}
	}
}

// vfGatherDone waits until ICE gathering of p completed and returns its full local description.
func vfGatherDone(p *vfPeer) *SessionDescription {
	vfWaitFor(10*time.Second, func() bool { return p.pc.ICEGatheringState() == ICEGatheringStateComplete })
	return p.pc.LocalDescription()
}

// vfConnectPair runs one complete non-trickle offer/answer exchange a -> b.
func vfConnectPair(a, b *vfPeer) error {
	offer, err := a.pc.CreateOffer(nil)
	if err != nil {
		return fmt.Errorf("CreateOffer: %w", err)
	}
	if err = a.pc.SetLocalDescription(offer); err != nil {
		return fmt.Errorf("SetLocalDescription(offer): %w", err)
	}
	full := vfGatherDone(a)
	if full == nil {
		return fmt.Errorf("no local description after gathering")
	}
	if err = b.pc.SetRemoteDescription(*full); err != nil {
		return fmt.Errorf("SetRemoteDescription(offer): %w", err)
	}
	answer, err := b.pc.CreateAnswer(nil)
	if err != nil {
		return fmt.Errorf("CreateAnswer: %w", err)
	}
	if err = b.pc.SetLocalDescription(answer); err != nil {
		return fmt.Errorf("SetLocalDescription(answer): %w", err)
	}
	fullB := vfGatherDone(b)
	if fullB == nil {
		return fmt.Errorf("no local answer after gathering")
	}
	if err = a.pc.SetRemoteDescription(*fullB); err != nil {
		return fmt.Errorf("SetRemoteDescription(answer): %w", err)
	}
	return nil
}

func vfSortedStats(m map[string]int64) []string {
	ks := make([]string, 0, len(m))
	for k := range m {
		ks = append(ks, k)
	}
	sort.Strings(ks)
	out := make([]string, 0, len(ks))
	for _, k := range ks {
		out = append(out, fmt.Sprintf("%s=%d", k, m[k]))
	}
	return out
}

func vfMergeNetStats(res *vfResult, n *vfNetSim) {
	n.mu.Lock()
	defer n.mu.Unlock()
	for k, v := range n.stats {
		res.stat("net_"+k, v)
	}
}
