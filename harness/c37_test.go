//go:build !js

package webrtc

// C37 — container readers never crash or hang on arbitrary bytes.
// Engine C (iosim): the real IVF, Ogg, H.264, H.265 and rtpdump readers and
// oggreader.ParseOpusHead / ParseOpusTags are driven over
//   (a) every valid seed file truncated at every offset (enumerated: run indices 0..K-1 partition
//       the list of all (file, offset) pairs), and
//   (b) seeded corruptions of a seed file (byte flips, length fields overwritten with boundary
//       values, spliced garbage, optional extra truncation), optionally with an early read error,
// delivered through a simulated io.Reader with seeded chunking. Single task, no goroutines.
// Oracle: no panic; the number of successful calls per stream is <= len(stream)+2; the source is
// not read more than len(stream)+16 times (it answers io.ErrUnexpectedEOF from then on and aborts
// the reader with a sentinel panic 64 calls later, so a spin inside one call terminates).

import (
	"bytes"
	"encoding/binary"
	"encoding/json"
	"errors"
	"fmt"
	"io"
	"net"
	"os"
	"runtime"
	"runtime/debug"
	"runtime/metrics"
	"strings"
	"sync"
	"syscall"
	"testing"
	"time"

	"github.com/pion/rtp"
	"github.com/pion/webrtc/v4/pkg/media/h264reader"
	"github.com/pion/webrtc/v4/pkg/media/h264writer"
	"github.com/pion/webrtc/v4/pkg/media/h265reader"
	"github.com/pion/webrtc/v4/pkg/media/ivfreader"
	"github.com/pion/webrtc/v4/pkg/media/ivfwriter"
	"github.com/pion/webrtc/v4/pkg/media/oggreader"
	"github.com/pion/webrtc/v4/pkg/media/oggwriter"
	"github.com/pion/webrtc/v4/pkg/media/rtpdump"
)

// ---------------------------------------------------------------- seed files

type c37Seed struct {
	name    string
	kind    string // ivf | ogg | h264 | h265 | rtpdump | opushead | opustags
	data    []byte
	lenOffs []int // offsets of length / count / size fields (targets of boundary-value overwrites)
	minOK   int   // successful calls the matching reader must make on the intact file
}

var (
	c37SeedsOnce sync.Once
	c37SeedList  []*c37Seed
	c37SeedErr   string
)

func c37OggCRC(b []byte) uint32 {
	var crc uint32
	for _, v := range b {
		crc ^= uint32(v) << 24
		for i := 0; i < 8; i++ {
			if crc&0x80000000 != 0 {
				crc = crc<<1 ^ 0x04c11db7
			} else {
				crc <<= 1
			}
		}
	}
	return crc
}

// c37OggFixSerial gives every page of a well-formed Ogg stream the same fixed serial number and
// recomputes the page checksums: oggwriter draws the serial from the global random source, and a
// seed file must be the same bytes in every process.
func c37OggFixSerial(b []byte) []byte {
	for p := 0; p+27 <= len(b) && string(b[p:p+4]) == "OggS"; {
		nseg := int(b[p+26])
		if p+27+nseg > len(b) {
			break
		}
		size := 27 + nseg
		for _, l := range b[p+27 : p+27+nseg] {
			size += int(l)
		}
		if p+size > len(b) {
			break
		}
		copy(b[p+14:p+18], []byte{0x44, 0x33, 0x22, 0x11})
		copy(b[p+22:p+26], []byte{0, 0, 0, 0})
		binary.LittleEndian.PutUint32(b[p+22:p+26], c37OggCRC(b[p:p+size]))
		p += size
	}
	return b
}

func c37OggPage(headerType byte, granule uint64, serial, index uint32, payload []byte) []byte {
	var segs []byte
	n := len(payload)
	for n >= 255 {
		segs = append(segs, 255)
		n -= 255
	}
	if len(payload) > 0 {
		segs = append(segs, byte(n))
	}
	p := make([]byte, 27, 27+len(segs)+len(payload))
	copy(p, "OggS")
	p[5] = headerType
	binary.LittleEndian.PutUint64(p[6:], granule)
	binary.LittleEndian.PutUint32(p[14:], serial)
	binary.LittleEndian.PutUint32(p[18:], index)
	p[26] = byte(len(segs))
	p = append(p, segs...)
	p = append(p, payload...)
	binary.LittleEndian.PutUint32(p[22:], c37OggCRC(p))
	return p
}

func c37OpusTagsPayload(vendor string, comments ...string) ([]byte, []int) {
	var offs []int
	b := []byte("OpusTags")
	offs = append(offs, len(b))
	b = binary.LittleEndian.AppendUint32(b, uint32(len(vendor)))
	b = append(b, vendor...)
	offs = append(offs, len(b))
	b = binary.LittleEndian.AppendUint32(b, uint32(len(comments)))
	for _, c := range comments {
		offs = append(offs, len(b))
		b = binary.LittleEndian.AppendUint32(b, uint32(len(c)))
		b = append(b, c...)
	}
	return b, offs
}

func c37OpusHeadPayload(family byte, channels byte) []byte {
	b := []byte("OpusHead")
	b = append(b, 1, channels)
	b = binary.LittleEndian.AppendUint16(b, 312)
	b = binary.LittleEndian.AppendUint32(b, 48000)
	b = binary.LittleEndian.AppendUint16(b, 0)
	b = append(b, family)
	if family != 0 {
		b = append(b, 1, channels-1)
		for i := byte(0); i < channels; i++ {
			b = append(b, i)
		}
	}
	return b
}

func c37Filler(tag string, n int) []byte { return vfNewRand(vfHashStr(tag), "c37seed").Bytes(n) }

func c37OggPageOffsets(b []byte) (offs []int) {
	for p := 0; p+27 <= len(b) && string(b[p:p+4]) == "OggS"; {
		ns := int(b[p+26])
		offs = append(offs, p+26)
		if p+27+ns > len(b) {
			break
		}
		sz := 0
		for i := 0; i < ns; i++ {
			offs = append(offs, p+27+i)
			sz += int(b[p+27+i])
		}
		p += 27 + ns + sz
	}
	return offs
}

func c37BuildSeeds() {
	fail := func(f string, a ...any) {
		if c37SeedErr == "" {
			c37SeedErr = fmt.Sprintf(f, a...)
		}
	}
	add := func(s *c37Seed) { c37SeedList = append(c37SeedList, s) }

	// IVF, by hand: 32-byte header, frames of 1, 0, 33 and 300 bytes
	{
		b := make([]byte, 32)
		copy(b, "DKIF")
		binary.LittleEndian.PutUint16(b[6:], 32)
		copy(b[8:], "VP80")
		binary.LittleEndian.PutUint16(b[12:], 640)
		binary.LittleEndian.PutUint16(b[14:], 480)
		binary.LittleEndian.PutUint32(b[16:], 30)
		binary.LittleEndian.PutUint32(b[20:], 1)
		binary.LittleEndian.PutUint32(b[24:], 4)
		offs := []int{4, 6, 16, 20, 24}
		for i, n := range []int{1, 0, 33, 300} {
			offs = append(offs, len(b), len(b)+4, len(b)+8)
			b = binary.LittleEndian.AppendUint32(b, uint32(n))
			b = binary.LittleEndian.AppendUint64(b, uint64(i))
			b = append(b, c37Filler(fmt.Sprint("ivf", i), n)...)
		}
		add(&c37Seed{name: "ivf-hand", kind: "ivf", data: b, lenOffs: offs, minOK: 5})
	}
	// IVF written by ivfwriter from VP8 RTP packets (one packet per frame)
	{
		var buf bytes.Buffer
		w, err := ivfwriter.NewWith(&buf)
		if err != nil {
			fail("ivfwriter.NewWith: %v", err)
		} else {
			for i := 0; i < 3; i++ {
				pay := append([]byte{0x10, byte(i & 1)}, c37Filler(fmt.Sprint("ivfw", i), 10+7*i)...)
				if err := w.WriteRTP(&rtp.Packet{Header: rtp.Header{Version: 2, Marker: true, SequenceNumber: uint16(i), Timestamp: uint32(3000 * i)}, Payload: pay}); err != nil {
					fail("ivfwriter.WriteRTP: %v", err)
				}
			}
			_ = w.Close()
		}
		b := append([]byte{}, buf.Bytes()...)
		offs := []int{4, 6, 16, 20, 24}
		for p := 32; p+12 <= len(b); p += 12 + int(binary.LittleEndian.Uint32(b[p:])) {
			offs = append(offs, p)
		}
		add(&c37Seed{name: "ivf-writer", kind: "ivf", data: b, lenOffs: offs, minOK: 4})
	}
	// Ogg/Opus written by oggwriter
	{
		var buf bytes.Buffer
		w, err := oggwriter.NewWith(&buf, 48000, 2)
		if err != nil {
			fail("oggwriter.NewWith: %v", err)
		} else {
			for i := 0; i < 3; i++ {
				pay := append([]byte{0x78}, c37Filler(fmt.Sprint("oggw", i), 9+30*i)...)
				if err := w.WriteRTP(&rtp.Packet{Header: rtp.Header{Version: 2, SequenceNumber: uint16(i), Timestamp: uint32(960 * i)}, Payload: pay}); err != nil {
					fail("oggwriter.WriteRTP: %v", err)
				}
			}
			_ = w.Close()
		}
		b := c37OggFixSerial(append([]byte{}, buf.Bytes()...))
		add(&c37Seed{name: "ogg-writer", kind: "ogg", data: b, lenOffs: c37OggPageOffsets(b), minOK: 5})
	}
	// Ogg by hand: OpusHead (mapping family 1), OpusTags with comments, a 3-segment page, an empty page
	{
		var b []byte
		b = append(b, c37OggPage(2, 0, 0x1234, 0, c37OpusHeadPayload(1, 2))...)
		tags, _ := c37OpusTagsPayload("pion-verif", "TITLE=torn write", "ENCODER=c37")
		b = append(b, c37OggPage(0, 0, 0x1234, 1, tags)...)
		b = append(b, c37OggPage(0, 960, 0x1234, 2, c37Filler("ogg-big", 520))...)
		b = append(b, c37OggPage(4, 960, 0x1234, 3, nil)...)
		add(&c37Seed{name: "ogg-hand", kind: "ogg", data: b, lenOffs: c37OggPageOffsets(b), minOK: 4})
	}
	// H.264 Annex-B written by h264writer (single-NAL packets: SPS, PPS, SEI, IDR, non-IDR)
	{
		var buf bytes.Buffer
		w := h264writer.NewWith(&buf)
		for i, hd := range []byte{0x67, 0x68, 0x06, 0x65, 0x41} {
			pay := append([]byte{hd}, c37Filler(fmt.Sprint("h264w", i), 5+9*i)...)
			for j := 1; j < len(pay); j++ {
				if pay[j] < 4 {
					pay[j] = 0x80
				}
			}
			if err := w.WriteRTP(&rtp.Packet{Header: rtp.Header{Version: 2, SequenceNumber: uint16(i)}, Payload: pay}); err != nil {
				fail("h264writer.WriteRTP: %v", err)
			}
		}
		_ = w.Close()
		add(&c37Seed{name: "h264-writer", kind: "h264", data: append([]byte{}, buf.Bytes()...), minOK: 4})
	}
	// Annex-B by hand, mixed 3/4-byte start codes, SEI in the middle and last
	annexb := func(tag string, hdrs [][]byte) []byte {
		var b []byte
		for i, h := range hdrs {
			if i%2 == 0 {
				b = append(b, 0)
			}
			b = append(b, 0, 0, 1)
			b = append(b, h...)
			f := c37Filler(fmt.Sprint(tag, i), 1+11*i)
			for j := range f {
				if f[j] < 4 {
					f[j] = 0x55
				}
			}
			b = append(b, f...)
		}
		return b
	}
	add(&c37Seed{name: "h264-hand", kind: "h264", data: annexb("h264", [][]byte{{0x67}, {0x06}, {0x65}, {0x21}, {0x06}}), minOK: 3})
	add(&c37Seed{name: "h265-hand", kind: "h265", data: annexb("h265", [][]byte{{0x40, 0x01}, {0x42, 0x01}, {0x4e, 0x01}, {0x26, 0x01}, {0x02, 0x01}, {0x50, 0x01}}), minOK: 4})
	// rtpdump written by rtpdump.NewWriter
	{
		var buf bytes.Buffer
		w, err := rtpdump.NewWriter(&buf, rtpdump.Header{Start: time.Unix(9, 0).UTC(), Source: net.IPv4(2, 2, 2, 2), Port: 2222})
		if err != nil {
			fail("rtpdump.NewWriter: %v", err)
		} else {
			for i := 0; i < 4; i++ {
				if err := w.WritePacket(rtpdump.Packet{Offset: time.Duration(i) * time.Millisecond, IsRTCP: i == 2, Payload: c37Filler(fmt.Sprint("rtpd", i), 12+13*i)}); err != nil {
					fail("rtpdump.WritePacket: %v", err)
				}
			}
		}
		b := append([]byte{}, buf.Bytes()...)
		var offs []int
		if i := bytes.IndexByte(b, '\n'); i > 0 {
			for p := i + 1 + 16; p+8 <= len(b); {
				offs = append(offs, p, p+2)
				l := int(binary.BigEndian.Uint16(b[p:]))
				if l < 8 {
					break
				}
				p += l
			}
		}
		add(&c37Seed{name: "rtpdump-writer", kind: "rtpdump", data: b, lenOffs: offs, minOK: 5})
	}
	add(&c37Seed{name: "opushead-family0", kind: "opushead", data: c37OpusHeadPayload(0, 2), lenOffs: []int{9, 18}, minOK: 1})
	add(&c37Seed{name: "opushead-family1", kind: "opushead", data: c37OpusHeadPayload(1, 3), lenOffs: []int{9, 18}, minOK: 1})
	{
		b, offs := c37OpusTagsPayload("pion-verif", "TITLE=torn write", "ARTIST=", "ENCODER=c37 harness")
		add(&c37Seed{name: "opustags", kind: "opustags", data: b, lenOffs: offs, minOK: 1})
	}
	// every seed file must be fully accepted by its own reader, otherwise the harness is wrong
	for _, s := range c37SeedList {
		{
			// whole-buffer delivery only: how the readers cope with odd chunking is C34's subject
			o := c37Drive(c37Readers(s.kind, false)[0], s.data, 1, true, -1)
			if o.class != "" || o.ok < s.minOK || (o.end != "EOF" && o.end != "done") {
				fail("seed file %s is not accepted by its reader: ok=%d (want >= %d) end=%q class=%q %s; %d bytes %x", s.name, o.ok, s.minOK, o.end, o.class, o.detail, len(s.data), s.data[:min(len(s.data), 48)])
			}
		}
	}
}

func c37Seeds() []*c37Seed {
	c37SeedsOnce.Do(c37BuildSeeds)
	return c37SeedList
}

func c37Readers(kind string, all bool) []string {
	if all {
		return []string{"ivf", "ogg", "ogg-nocrc", "h264", "h264-sei", "h265", "h265-sei", "rtpdump", "opushead", "opustags"}
	}
	switch kind {
	case "ivf":
		return []string{"ivf"}
	case "ogg":
		return []string{"ogg", "ogg-nocrc"}
	case "h264":
		return []string{"h264", "h264-sei"}
	case "h265":
		return []string{"h265", "h265-sei"}
	case "rtpdump":
		return []string{"rtpdump"}
	case "opushead":
		return []string{"opushead"}
	case "opustags":
		return []string{"opustags"}
	}
	return nil
}

// ---------------------------------------------------------------- iosim (same behaviour as C34's, own copy)

var errC37Injected = errors.New("simulated read error")

type c37SpinSentinel struct{}

type c37Sim struct {
	data     []byte
	pos      int
	seed     uint64
	plain    bool
	faultAt  int
	fired    bool
	zeroDone map[int]bool
	nZero    int
	calls    int
	budget   int
	over     bool
}

func (s *c37Sim) Read(p []byte) (int, error) {
	s.calls++
	if s.calls > s.budget+64 {
		panic(c37SpinSentinel{})
	}
	if s.calls > s.budget {
		s.over = true
		return 0, io.ErrUnexpectedEOF
	}
	if len(p) == 0 {
		return 0, nil
	}
	if s.faultAt >= 0 && !s.fired && s.pos >= s.faultAt {
		s.fired = true
		return 0, errC37Injected
	}
	if s.pos >= len(s.data) {
		return 0, io.EOF
	}
	rem := len(s.data) - s.pos
	max := len(p)
	if rem < max {
		max = rem
	}
	if s.plain {
		copy(p, s.data[s.pos:s.pos+max])
		s.pos += max
		return max, nil
	}
	if s.nZero < 6 && !s.zeroDone[s.pos] && vfH(s.seed, "zero", uint64(s.pos))%8 == 0 {
		s.zeroDone[s.pos] = true
		s.nZero++
		return 0, nil
	}
	n := max
	switch h := vfH(s.seed, "mode", uint64(s.pos)); h % 8 {
	case 0, 1:
		n = 1
	case 2, 3:
	case 4:
		n = 1 + int((h>>8)%7)
	default:
		n = 1 + int((h>>8)%uint64(max))
	}
	if n > max {
		n = max
	}
	copy(p, s.data[s.pos:s.pos+n])
	s.pos += n
	if s.pos == len(s.data) && vfH(s.seed, "eofdata", 0)&1 == 1 {
		return n, io.EOF
	}
	return n, nil
}

// ---------------------------------------------------------------- driving one reader over one stream

type c37Out struct {
	reader        string
	ok            int
	end           string // EOF | done | err:<text> | nil,nil
	reads         int
	class, detail string
	allocMiB      int64
	hung          bool // a call never returned: its goroutine is still spinning
}

func c37Allocs() uint64 {
	sample := []metrics.Sample{{Name: "/gc/heap/allocs:bytes"}} // (own sample: called from the watchdog too)
	metrics.Read(sample)
	if sample[0].Value.Kind() == metrics.KindUint64 {
		return sample[0].Value.Uint64()
	}
	return 0
}

// c37Drive runs one reader over one stream and gives the whole thing (constructor included) 8 s
// of real time.
func c37Drive(reader string, data []byte, seed uint64, plain bool, faultAt int) *c37Out {
	ch := make(chan *c37Out, 1)
	go func() { ch <- c37DriveInner(reader, data, seed, plain, faultAt) }()
	var o *c37Out
	finished := func() bool {
		if o == nil {
			select {
			case o = <-ch:
			default:
			}
		}
		return o != nil
	}
	select {
	case o = <-ch:
	case <-time.After(8 * time.Second):
		// the calls have their own watchdog (3 s each); what is left for this one is a constructor
		// that never returns
		if c37ConfirmHang(finished, func() int64 { return 0 }) {
			return &c37Out{reader: reader, end: "hang", hung: true, class: "reader-call-never-returned:" + reader,
				detail: fmt.Sprintf("constructing the reader and driving it over a %d-byte stream had not finished after 8 s of real time and made no progress during 5 further seconds in which the process was running", len(data)) + c37DebugStacks()}
		}
	}
	if o.allocMiB >= 64 {
		debug.FreeOSMemory() // a reader may have allocated gigabytes for a length field; give it back now
	}
	return o
}

// c37ConfirmHang decides whether a call that has been out for seconds is spinning or merely slow.
// Real time alone cannot tell: a reader that takes a corrupt length field at face value asks for
// up to 4 GiB, sixteen workers doing that at once stall each other in the kernel for seconds, and
// with one P the watchdog itself only runs when the stalled goroutine is taken off it. So the
// verdict needs twenty quarter-second rounds (not necessarily consecutive in wall time, but with
// no progress in between) in each of which the process really consumed CPU while nothing
// observable moved: the call has not returned, the source was not read, no allocation of
// megabytes completed, and the goroutine is not inside the allocator or the collector. Rounds in
// which the process hardly ran say nothing and are not counted. Progress resets the count.
func c37ConfirmHang(finished func() bool, progress func() int64) bool {
	spins := 0
	lastP, lastA, lastCPU := progress(), c37Allocs(), c37CPU()
	for start := time.Now(); time.Since(start) < 20*time.Minute; {
		time.Sleep(250 * time.Millisecond)
		if finished() {
			return false
		}
		pr, al, cpu := progress(), c37Allocs(), c37CPU()
		switch {
		case pr != lastP || al-lastA >= 64<<20 || c37InAllocator():
			spins = 0
		case cpu-lastCPU < 125*time.Millisecond:
			// starved or stalled: no evidence either way
		default:
			spins++
		}
		lastP, lastA, lastCPU = pr, al, cpu
		if spins >= 20 {
			return !finished()
		}
	}
	return !finished()
}

// c37CPU is the CPU time (user+system) this process has consumed.
func c37CPU() time.Duration {
	var ru syscall.Rusage
	if err := syscall.Getrusage(syscall.RUSAGE_SELF, &ru); err != nil {
		return 0
	}
	return time.Duration(ru.Utime.Nano() + ru.Stime.Nano())
}

func c37DriveInner(reader string, data []byte, seed uint64, plain bool, faultAt int) (o *c37Out) {
	o = &c37Out{reader: reader, end: "done"}
	sim := &c37Sim{data: data, seed: seed, plain: plain, faultAt: faultAt, zeroDone: map[int]bool{}, budget: len(data) + 16}
	limit := len(data) + 2
	a0 := c37Allocs()
	defer func() {
		if r := recover(); r != nil {
			if _, spin := r.(c37SpinSentinel); spin {
				o.class = "reader-read-past-eof-forever:" + reader
				o.detail = fmt.Sprintf("the reader called Read %d times on a %d-byte stream and kept calling after %d consecutive io.ErrUnexpectedEOF answers", sim.calls, len(data), 64)
			} else {
				st := strings.Split(string(debug.Stack()), "\n")
				if len(st) > 30 {
					st = st[:30]
				}
				o.class = "reader-panicked:" + reader
				o.detail = fmt.Sprintf("%v\n%s", r, strings.Join(st, "\n"))
			}
			o.end = "panic"
		}
		o.reads = sim.calls
		if o.class == "" && sim.over {
			o.class = "reader-read-past-eof-forever:" + reader
			o.detail = fmt.Sprintf("the reader called Read %d times on a %d-byte stream (allowed: len+16)", sim.calls, len(data))
		}
		if d := c37Allocs() - a0; d > 4<<20 {
			o.allocMiB = int64(d >> 20) // (the memory is given back by c37Drive, outside the watchdog's clock)
		}
	}()
	endWith := func(err error) {
		switch {
		case err == nil:
			o.end = "nil,nil"
		case errors.Is(err, io.EOF):
			o.end = "EOF"
		default:
			o.end = "err:" + err.Error()
		}
	}
	// loop drives next() until it stops reporting success
	loop := func(next0 func() (bool, error)) {
		// every call gets 3 s of real time: a reader that loops without ever calling Read again
		// cannot be noticed through the simulated source
		next := func() (got bool, err error) {
			type ret struct {
				got  bool
				err  error
				pan  any
				done bool
			}
			ch := make(chan ret, 1)
			go func() {
				defer func() {
					if r := recover(); r != nil {
						ch <- ret{pan: r, done: true}
					}
				}()
				g, e := next0()
				ch <- ret{got: g, err: e, done: true}
			}()
			var r ret
			finished := func() bool {
				if !r.done {
					select {
					case r = <-ch:
					default:
					}
				}
				return r.done
			}
			select {
			case r = <-ch:
			case <-time.After(3 * time.Second):
				// slow (an allocation of gigabytes for a length field of a corrupt header taken at
				// face value, a stalled machine) or endless?
				c37ConfirmHang(finished, func() int64 { return int64(sim.calls) })
			}
			switch {
			case r.pan != nil:
				panic(r.pan)
			case r.done:
				return r.got, r.err
			default:
				o.class = "reader-call-never-returned:" + reader
				o.detail = fmt.Sprintf("a call had not returned after 3 s of real time on a %d-byte stream and made no progress during 5 further seconds in which the process was running; the source had been asked %d times by then (position %d)", len(data), sim.calls, sim.pos) + c37DebugStacks()
				o.end = "hang"
				o.hung = true
				return false, nil
			}
		}
		for {
			got, err := next()
			if o.hung {
				return
			}
			if err != nil || !got {
				endWith(err)
				return
			}
			o.ok++
			if o.ok > limit {
				o.class = "reader-made-no-progress:" + reader
				o.detail = fmt.Sprintf("%d successful calls on a stream of %d bytes (source position %d)", o.ok, len(data), sim.pos)
				o.end = "no-progress"
				return
			}
		}
	}
	payloadParsers := func(payload []byte) {
		// page payloads of a (possibly corrupted) file are what applications hand to these parsers
		_, _ = oggreader.ParseOpusHead(payload)
		_, _ = oggreader.ParseOpusTags(payload)
	}
	switch reader {
	case "ivf":
		rd, hdr, err := ivfreader.NewWith(sim)
		if err != nil || rd == nil || hdr == nil {
			endWith(err)
			return o
		}
		o.ok++
		loop(func() (bool, error) {
			_, fh, err := rd.ParseNextFrame()
			return fh != nil, err
		})
	case "ogg":
		rd, hdr, err := oggreader.NewWith(sim)
		if err != nil || rd == nil || hdr == nil {
			endWith(err)
			return o
		}
		o.ok++
		loop(func() (bool, error) {
			payload, ph, err := rd.ParseNextPage()
			if err == nil && ph != nil {
				_, _ = ph.HeaderType(payload)
				payloadParsers(payload)
			}
			return ph != nil, err
		})
	case "ogg-nocrc":
		rd, err := oggreader.NewWithOptions(sim, oggreader.WithDoChecksum(false))
		if err != nil || rd == nil {
			endWith(err)
			return o
		}
		loop(func() (bool, error) {
			payload, ph, err := rd.ParseNextPage()
			if err == nil && ph != nil {
				_, _ = ph.HeaderType(payload)
				payloadParsers(payload)
			}
			return ph != nil, err
		})
	case "h264", "h264-sei":
		rd, err := h264reader.NewReaderWithOptions(sim, h264reader.WithIncludeSEI(reader == "h264-sei"))
		if err != nil || rd == nil {
			endWith(err)
			return o
		}
		loop(func() (bool, error) {
			n, err := rd.NextNAL()
			return n != nil, err
		})
	case "h265", "h265-sei":
		rd, err := h265reader.NewReaderWithOptions(sim, h265reader.WithIncludeSEI(reader == "h265-sei"))
		if err != nil || rd == nil {
			endWith(err)
			return o
		}
		loop(func() (bool, error) {
			n, err := rd.NextNAL()
			return n != nil, err
		})
	case "rtpdump":
		rd, _, err := rtpdump.NewReader(sim)
		if err != nil || rd == nil {
			endWith(err)
			return o
		}
		o.ok++
		loop(func() (bool, error) {
			_, err := rd.Next()
			return true, err
		})
	case "opushead":
		h, err := oggreader.ParseOpusHead(data)
		if err == nil && h != nil {
			o.ok++
		} else {
			endWith(err)
		}
	case "opustags":
		h, err := oggreader.ParseOpusTags(data)
		if err == nil && h != nil {
			o.ok++
		} else {
			endWith(err)
		}
	default:
		o.end = "unknown reader"
	}
	return o
}

// ---------------------------------------------------------------- case

type c37Mut struct {
	K    string `json:"k"` // xor | u16le | u16be | u32le | u32be | splice | trunc
	Off  int    `json:"off"`
	V    uint64 `json:"v,omitempty"`
	Del  int    `json:"del,omitempty"`
	Ins  int    `json:"ins,omitempty"`
	Seed uint64 `json:"seed,omitempty"`
}

type c37Case struct {
	Mode        string   `json:"mode"` // truncate | corrupt
	From        int      `json:"from,omitempty"`
	To          int      `json:"to,omitempty"`
	Pairs       int      `json:"pairs,omitempty"`     // number of (file, offset) pairs the generator enumerated over
	Uncovered   int      `json:"uncovered,omitempty"` // pairs this batch cannot cover (batch too small); only on run 0
	ReportTotal bool     `json:"report_total,omitempty"`
	File        string   `json:"file,omitempty"`
	Muts        []c37Mut `json:"muts,omitempty"`
	FaultAt     int      `json:"fault_at"` // -1: none
	AllReaders  bool     `json:"all_readers,omitempty"`
	ChunkSeed   uint64   `json:"chunk_seed"`
}

const c37MaxPairsPerCase = 4096

func c37TotalPairs() int {
	n := 0
	for _, s := range c37Seeds() {
		n += len(s.data) + 1
	}
	return n
}

func c37Pair(i int) (*c37Seed, int) {
	for _, s := range c37Seeds() {
		if i <= len(s.data) {
			return s, i
		}
		i -= len(s.data) + 1
	}
	return nil, 0
}

// c37TruncCases is the number of leading run indices used for the truncation enumeration.
func c37TruncCases(total int) int {
	p := c37TotalPairs()
	k := (p + 3) / 4 // 4 pairs per case when the batch is large enough
	if half := total / 2; k > half {
		k = half
	}
	if k < 1 {
		k = 1
	}
	return k
}

var c37Boundary = []uint64{0, 1, 0xff, 0xffff, 0x7fff, 0x8000, 0x7fffffff, 0x80000000, 0xffffffff, 0xfffffffe, 0x100, 0x10000, 0xfffffff0, 0xffffffe0}

func c37Gen(seed uint64, idx, total int, tier string) any {
	r := vfNewRand(seed, "c37")
	if total < 1 {
		total = 1
	}
	k := c37TruncCases(total)
	if idx < k {
		p := c37TotalPairs()
		c := &c37Case{Mode: "truncate", From: idx * p / k, To: (idx + 1) * p / k, Pairs: p, FaultAt: -1, ChunkSeed: r.U64(), ReportTotal: idx == 0}
		if c.To-c.From > c37MaxPairsPerCase {
			c.To = c.From + c37MaxPairsPerCase
		}
		if idx == 0 {
			for i := 0; i < k; i++ {
				if n := (i+1)*p/k - i*p/k; n > c37MaxPairsPerCase {
					c.Uncovered += n - c37MaxPairsPerCase
				}
			}
		}
		return c
	}
	seeds := c37Seeds()
	s := vfPick(r, seeds)
	c := &c37Case{Mode: "corrupt", File: s.name, FaultAt: -1, ChunkSeed: r.U64(), AllReaders: r.Bool(0.2)}
	n := len(s.data)
	off := func() int { return r.Intn(n + 1) }
	lenOff := func() int {
		if len(s.lenOffs) > 0 && r.Bool(0.6) {
			return vfPick(r, s.lenOffs)
		}
		return off()
	}
	nm := r.Range(1, 3)
	for i := 0; i < nm; i++ {
		switch x := r.Intn(20); {
		case x < 8:
			for j, f := 0, r.Range(1, 8); j < f; j++ {
				o := off()
				if r.Bool(0.3) && len(s.lenOffs) > 0 {
					o = vfPick(r, s.lenOffs) + r.Intn(4)
				}
				c.Muts = append(c.Muts, c37Mut{K: "xor", Off: o, V: uint64(r.Range(1, 255))})
			}
		case x < 15:
			c.Muts = append(c.Muts, c37Mut{K: vfPick(r, []string{"u16le", "u16be", "u32le", "u32be"}), Off: lenOff(), V: vfPick(r, c37Boundary)})
		case x < 17:
			c.Muts = append(c.Muts, c37Mut{K: "splice", Off: off(), Del: r.Intn(33), Ins: r.Intn(33), Seed: r.U64()})
		case x < 19:
			// a zeroed run (several adjacent fields at once)
			c.Muts = append(c.Muts, c37Mut{K: "zero", Off: lenOff(), Del: vfPick(r, []int{2, 4, 8, 8, 12, 16})})
		default:
			c.Muts = append(c.Muts, c37Mut{K: "trunc", Off: off()})
		}
	}
	if r.Bool(0.15) {
		c.FaultAt = r.Intn(n + 1)
	}
	return c
}

func c37Apply(data []byte, muts []c37Mut) []byte {
	b := append([]byte{}, data...)
	for _, m := range muts {
		o := m.Off
		if o < 0 {
			o = 0
		}
		if o > len(b) {
			o = len(b)
		}
		put := func(w int, big bool) {
			for i := 0; i < w && o+i < len(b); i++ {
				sh := uint(8 * i)
				if big {
					sh = uint(8 * (w - 1 - i))
				}
				b[o+i] = byte(m.V >> sh)
			}
		}
		switch m.K {
		case "xor":
			if o < len(b) {
				b[o] ^= byte(m.V)
			}
		case "zero":
			for i := 0; i < m.Del && i < 64 && o+i < len(b); i++ {
				b[o+i] = 0
			}
		case "u16le":
			put(2, false)
		case "u16be":
			put(2, true)
		case "u32le":
			put(4, false)
		case "u32be":
			put(4, true)
		case "splice":
			d, ins := m.Del, m.Ins
			if d < 0 {
				d = 0
			}
			if ins < 0 {
				ins = 0
			}
			if ins > 4096 {
				ins = 4096
			}
			if o+d > len(b) {
				d = len(b) - o
			}
			nb := append([]byte{}, b[:o]...)
			nb = append(nb, vfNewRand(m.Seed, "c37splice").Bytes(ins)...)
			b = append(nb, b[o+d:]...)
		case "trunc":
			b = b[:o]
		}
	}
	return b
}

func c37Run(t *testing.T, cj []byte, res *vfResult) {
	var c c37Case
	if err := json.Unmarshal(cj, &c); err != nil {
		res.Verdict, res.Detail = "error", err.Error()
		return
	}
	seeds := c37Seeds()
	if c37SeedErr != "" {
		res.Verdict, res.Detail = "error", c37SeedErr
		return
	}
	var lines []string
	progressed := false
	record := func(what string, o *c37Out) {
		lines = append(lines, fmt.Sprintf("%s %s: ok=%d end=%s reads=%d", what, o.reader, o.ok, o.end, o.reads))
		res.stat("streams:"+o.reader, 1)
		res.stat("successful_calls", int64(o.ok))
		if o.ok > 0 {
			progressed = true
		}
		if o.allocMiB >= 64 {
			res.stat("streams_allocating_over_64MiB:"+o.reader, 1)
		}
		if o.allocMiB >= 1024 {
			res.stat("streams_allocating_over_1GiB:"+o.reader, 1)
		}
		if o.class != "" {
			res.violate(o.class, what+": "+o.detail)
		}
		if o.hung {
			res.restart = true
		}
	}
	switch c.Mode {
	case "truncate":
		p := c37TotalPairs()
		if c.Pairs != 0 && c.Pairs != p {
			res.Verdict, res.Detail = "error", fmt.Sprintf("the case was generated for %d (file, offset) pairs, the harness now has %d", c.Pairs, p)
			return
		}
		if c.ReportTotal {
			res.stat("truncation_pairs_total", int64(p))
			res.stat("truncation_pairs_not_coverable_batch_too_small", int64(c.Uncovered))
		}
		if c.From < 0 || c.To > p || c.To-c.From > c37MaxPairsPerCase {
			res.Verdict, res.Detail = "error", "bad pair range"
			return
		}
		for i := c.From; i < c.To; i++ {
			s, off := c37Pair(i)
			data := s.data[:off]
			for _, rd := range c37Readers(s.kind, false) {
				if res.restart {
					break
				}
				what := fmt.Sprintf("%s[:%d]", s.name, off)
				record(what+" plain", c37Drive(rd, data, 0, true, -1))
				if s.kind != "opushead" && s.kind != "opustags" && !res.restart {
					record(what+" chunked", c37Drive(rd, data, vfMix(c.ChunkSeed+uint64(i)), false, -1))
				}
			}
			res.stat("truncation_pairs_covered", 1)
			if res.restart {
				break
			}
		}
		if progressed {
			res.Nontrivial = fmt.Sprintf("truncate:%d-%d", c.From, c.To)
		}
	case "corrupt":
		var s *c37Seed
		for _, x := range seeds {
			if x.name == c.File {
				s = x
			}
		}
		if s == nil {
			res.Verdict, res.Detail = "error", "unknown seed file "+c.File
			return
		}
		data := c37Apply(s.data, c.Muts)
		res.stat("corrupt_cases", 1)
		for _, m := range c.Muts {
			res.stat("mutation:"+m.K, 1)
		}
		if c.FaultAt >= 0 {
			res.stat("early_read_error_cases", 1)
		}
		what := fmt.Sprintf("%s+%dmut(%dB)", s.name, len(c.Muts), len(data))
		for _, rd := range c37Readers(s.kind, c.AllReaders) {
			if res.restart {
				break
			}
			record(what, c37Drive(rd, data, c.ChunkSeed, false, c.FaultAt))
		}
		if progressed {
			res.Nontrivial = vfSig(append([]string{c.File}, lines...))
		}
	default:
		res.Verdict, res.Detail = "error", "bad mode"
		return
	}
	res.Sig = vfSig(lines)
	if len(lines) > 40 {
		lines = append(lines[:40], fmt.Sprintf("... %d more lines", len(lines)-40))
	}
	res.Log = lines
}

func init() {
	vfRegister(&vfProp{
		ID: "C37", Level: "exploration", ReplayClass: "exact",
		Rule: "run indices 0..K-1 (K = min(ceil(P/4), batch/2), at least 1) partition the P (seed file, offset) pairs: every seed file (hand-built IVF, ivfwriter IVF, oggwriter Ogg/Opus, hand-built Ogg with multi-segment page, h264writer Annex-B, hand-built H.264 and H.265 Annex-B, rtpdump.NewWriter file, two OpusHead payloads, one OpusTags payload) truncated at every offset 0..len, each delivered whole-buffer and with seeded chunking; remaining runs = one seed file with 1-3 mutation groups (1-8 byte xors, 16/32-bit LE/BE overwrite with a boundary value at a length-field or random offset, splice of 0-32 random bytes over 0-32 deleted, truncation), 15% with an early read error, 20% fed to all readers instead of the matching ones; non-trivial = at least one reader made >=1 successful call; distinct = the pair range (truncation) or the hash of (file, per-reader successful calls / final error / Read count)",
		Real: []string{"pkg/media/ivfreader", "pkg/media/oggreader (NewWith, NewWithOptions+WithDoChecksum(false), ParseNextPage, HeaderType, ParseOpusHead, ParseOpusTags)", "pkg/media/h264reader", "pkg/media/h265reader", "pkg/media/rtpdump (NewReader, Next)", "seed files are produced by ivfwriter, oggwriter, h264writer, rtpdump.NewWriter or by hand"},
		Stub: []string{"the byte source is the simulated io.Reader (iosim): seeded chunk sizes, at most 6 (0,nil) reads, (n>0, io.EOF), optional read error at a seeded offset, Read-call budget"},
		Assumptions: []string{
			"a reader is driven until its first error or end-of-stream result; (nil, nil) results are accepted as end of stream",
			"memory use is not judged: a reader that allocates the size named by a length field (ivfreader: up to 4 GiB) is only counted in streams_allocating_over_*; the harness returns the memory to the OS right after such a stream",
			"64-bit platform (int is 64 bits)",
			"corruption is seeded structural mutation, not coverage-guided fuzzing",
		},
		Shrink: []string{"muts"},
		Gen:    c37Gen, Run: c37Run,
	})
}

// c37InAllocator reports whether a goroutine that is driving a reader is inside the runtime's
// allocator right now (a multi-gigabyte make() clears its memory before it returns).
func c37InAllocator() bool {
	// (runtime.Stack and the text goroutine profile both leave the runtime's own frames out;
	// the allocator's frames are exactly what is looked for here)
	recs := make([]runtime.StackRecord, 256)
	n, ok := runtime.GoroutineProfile(recs)
	if !ok {
		recs = make([]runtime.StackRecord, 2*n+64)
		if n, ok = runtime.GoroutineProfile(recs); !ok {
			return false
		}
	}
	for _, r := range recs[:n] {
		driving, alloc := false, false
		fr := runtime.CallersFrames(r.Stack())
		for {
			f, more := fr.Next()
			switch {
			case strings.Contains(f.Function, "c37DriveInner"):
				driving = true
			case f.Function == "runtime.mallocgc" || f.Function == "runtime.makeslice" || f.Function == "runtime.growslice" ||
				f.Function == "runtime.newobject" || f.Function == "runtime.GC" || f.Function == "runtime.gcAssistAlloc" ||
				f.Function == "runtime.gcStart":
				alloc = true
			}
			if !more {
				break
			}
		}
		if driving && alloc {
			return true
		}
	}
	return false
}

func c37DebugStacks() string {
	if os.Getenv("VERIF_C37_DEBUG") == "" {
		return ""
	}
	out := ""
	recs := make([]runtime.StackRecord, 1024)
	n, ok := runtime.GoroutineProfile(recs)
	out += fmt.Sprintf("\nprofile n=%d ok=%v allocs=%d", n, ok, c37Allocs())
	if ok {
		for _, r := range recs[:n] {
			fr := runtime.CallersFrames(r.Stack())
			names := []string{}
			for {
				f, more := fr.Next()
				names = append(names, fmt.Sprintf("%s:%d", f.Function, f.Line))
				if !more {
					break
				}
			}
			out += "\n  G " + strings.Join(names, " < ")
		}
	}
	ents, _ := os.ReadDir("/proc/self/task")
	for _, e := range ents {
		st, _ := os.ReadFile("/proc/self/task/" + e.Name() + "/stat")
		wc, _ := os.ReadFile("/proc/self/task/" + e.Name() + "/wchan")
		ks, _ := os.ReadFile("/proc/self/task/" + e.Name() + "/stack")
		f := strings.Fields(string(st))
		if len(f) > 14 {
			out += fmt.Sprintf("\ntask %s state=%s utime=%s stime=%s wchan=%s kstack=%q", e.Name(), f[2], f[13], f[14], wc, ks)
		}
	}
	return out
}
