//go:build !js

package webrtc

// C05 — queued negotiation work runs serially, in order, exactly once.
// Engine A: the real operations queue under the cooperative scheduler; every lock, atomic
// and blocking receive in operations.go is a scheduling point.

import (
	"encoding/json"
	"fmt"
	"strings"
	"sync/atomic"
	"testing"
	"time"

	"verifsim/simrt"
)

type c05Item struct {
	ID       int   `json:"id"`
	Children []int `json:"children,omitempty"` // items this item enqueues when it runs
	SetFlag  bool  `json:"set_flag,omitempty"` // item sets the negotiation-needed flag
}

type c05Task struct {
	Kind  string    `json:"kind"` // enq | done | isempty | close
	Items []c05Item `json:"items,omitempty"`
}

type c05Case struct {
	Tasks       []c05Task      `json:"tasks"`
	Flag        bool           `json:"flag"`         // flag initially set
	NNReenqueue bool           `json:"nn_reenqueue"` // onNegotiationNeeded enqueues an item
	Strat       simrt.Strategy `json:"strat"`
	SchedSeed   uint64         `json:"sched_seed"`
}

func vfGenStrategy(r *vfRand) simrt.Strategy {
	switch r.Intn(4) {
	case 0:
		return simrt.Strategy{Kind: "walk"}
	case 1:
		return simrt.Strategy{Kind: "sticky", Stick: []float64{0.5, 0.75, 0.9}[r.Intn(3)]}
	default:
		return simrt.Strategy{Kind: "pct", Depth: 1 + r.Intn(3), Horiz: []int{15, 30, 60, 120}[r.Intn(4)]}
	}
}

func c05Gen(seed uint64, idx, total int, tier string) any {
	r := vfNewRand(seed, "c05")
	c := &c05Case{Flag: r.Bool(0.3), NNReenqueue: r.Bool(0.4), SchedSeed: r.U64(), Strat: vfGenStrategy(r)}
	nt := r.Range(2, 5)
	next := 1
	budget := 12
	closers := 0
	for i := 0; i < nt; i++ {
		var k string
		switch x := r.Intn(10); {
		case x < 4 || i == 0:
			k = "enq"
		case x < 6:
			k = "done"
		case x < 7:
			k = "isempty"
		default:
			k = "close"
		}
		if k == "close" {
			closers++
			if closers > 2 {
				k = "done"
			}
		}
		tk := c05Task{Kind: k}
		if k == "enq" {
			n := r.Range(1, 4)
			for j := 0; j < n && budget > 0; j++ {
				it := c05Item{ID: next, SetFlag: r.Bool(0.15)}
				next++
				budget--
				if r.Bool(0.25) && budget > 0 {
					nc := r.Range(1, 2)
					for q := 0; q < nc && budget > 0; q++ {
						it.Children = append(it.Children, next)
						next++
						budget--
					}
				}
				tk.Items = append(tk.Items, it)
			}
		}
		c.Tasks = append(c.Tasks, tk)
	}
	return c
}

type c05Ev struct {
	seq  int
	kind string // enq-inv enq-ret enter exit done-inv done-ret close-inv close-ret empty
	task int
	item int
}

func c05Run(t *testing.T, cj []byte, res *vfResult) {
	var c c05Case
	if err := json.Unmarshal(cj, &c); err != nil {
		res.Verdict, res.Detail = "error", err.Error()
		return
	}
	var evs []c05Ev
	seq := 0
	rec := func(kind string, task, item int) int {
		seq++
		evs = append(evs, c05Ev{seq, kind, task, item})
		return seq
	}
	var outcome string
	var unfinished []string
	var trace []simrt.Step
	preempts := 0
	leftover := vfBubble(t, func(t *testing.T) {
		flag := &atomic.Bool{}
		flag.Store(c.Flag)
		s := simrt.NewSched(c.SchedSeed, c.Strat)
		var o *operations
		nnItem := 1000
		var mkOp func(task int, it c05Item) operation
		mkOp = func(task int, it c05Item) operation {
			return func() {
				rec("enter", task, it.ID)
				if it.SetFlag {
					flag.Store(true)
				}
				for _, ch := range it.Children {
					rec("enq-inv", task, ch)
					o.Enqueue(mkOp(task, c05Item{ID: ch}))
					rec("enq-ret", task, ch)
				}
				rec("exit", task, it.ID)
			}
		}
		o = newOperations(flag, func() {
			rec("nn", -1, 0)
			if c.NNReenqueue {
				nnItem++
				id := nnItem
				rec("enq-inv", -1, id)
				o.Enqueue(mkOp(-1, c05Item{ID: id}))
				rec("enq-ret", -1, id)
			}
		})
		for ti, tk := range c.Tasks {
			ti, tk := ti, tk
			s.Go(tk.Kind, func() {
				switch tk.Kind {
				case "enq":
					for _, it := range tk.Items {
						rec("enq-inv", ti, it.ID)
						o.Enqueue(mkOp(ti, it))
						rec("enq-ret", ti, it.ID)
					}
				case "done":
					rec("done-inv", ti, 0)
					o.Done()
					rec("done-ret", ti, 0)
				case "isempty":
					e := o.IsEmpty()
					if e {
						rec("empty-true", ti, 0)
					} else {
						rec("empty-false", ti, 0)
					}
				case "close":
					rec("close-inv", ti, 0)
					o.GracefulClose()
					rec("close-ret", ti, 0)
				}
			})
		}
		outcome = s.Run(5000, time.Millisecond, 3)
		unfinished = s.Unfinished()
		trace = append(trace, s.Trace...)
		preempts = s.Preempts
		s.StopIf(outcome == "done")
	})
	_ = leftover
	res.Steps = len(trace)
	lines := make([]string, 0, len(evs)+len(trace))
	for _, e := range evs {
		lines = append(lines, fmt.Sprintf("%d %s t%d i%d", e.seq, e.kind, e.task, e.item))
	}
	for _, st := range trace {
		lines = append(lines, fmt.Sprintf("%d@%s", st.Task, st.Site))
	}
	res.Sig = vfSig(lines)
	res.Log = lines

	// probes
	window := false     // another task ran between the worker's last pop and its deferred restart lock
	minStart := 1 << 30 // the deferred restart is the first lock site inside start()
	for _, st := range trace {
		if strings.HasPrefix(st.Site, "operations.go:start:") {
			if n := vfSiteLine(st.Site); n < minStart {
				minStart = n
			}
		}
	}
	lastPop := map[int]int{}
	for i, st := range trace {
		if strings.HasPrefix(st.Site, "operations.go:pop:") {
			lastPop[st.Task] = i
		}
		if strings.HasPrefix(st.Site, "operations.go:start:") && vfSiteLine(st.Site) == minStart {
			if j, ok := lastPop[st.Task]; ok {
				for k := j + 1; k < i; k++ {
					if trace[k].Task != st.Task && (strings.Contains(trace[k].Site, ":Enqueue:") || strings.Contains(trace[k].Site, ":Done:") || strings.Contains(trace[k].Site, ":GracefulClose:")) {
						window = true
					}
				}
			}
		}
	}
	if window {
		res.stat("probe_other_task_between_last_pop_and_restart", 1)
	}
	res.stat("preemptions", int64(preempts))
	if preempts > 0 {
		res.Nontrivial = res.Sig
	}

	// ---------------- oracle over the recorded history
	type itemInfo struct{ inv, ret, enter, exit, runs int }
	items := map[int]*itemInfo{}
	get := func(id int) *itemInfo {
		if items[id] == nil {
			items[id] = &itemInfo{}
		}
		return items[id]
	}
	firstCloseInv, firstCloseRet := 0, 0
	nCloseInv, nCloseRet, lastCloseRet := 0, 0, 0
	running := 0
	for _, e := range evs {
		switch e.kind {
		case "enq-inv":
			get(e.item).inv = e.seq
		case "enq-ret":
			get(e.item).ret = e.seq
		case "enter":
			it := get(e.item)
			it.runs++
			it.enter = e.seq
			if running != 0 {
				res.violate("two-items-run-concurrently", fmt.Sprintf("item %d entered at seq %d while item %d was still running", e.item, e.seq, running))
			}
			running = e.item
		case "exit":
			get(e.item).exit = e.seq
			running = 0
		case "close-inv":
			nCloseInv++
			if firstCloseInv == 0 {
				firstCloseInv = e.seq
			}
		case "close-ret":
			nCloseRet++
			lastCloseRet = e.seq
			if firstCloseRet == 0 {
				firstCloseRet = e.seq
			}
		}
	}
	ids := make([]int, 0, len(items))
	for id := range items {
		ids = append(ids, id)
	}
	sortInts(ids)
	for _, id := range ids {
		it := items[id]
		if it.runs > 1 {
			res.violate("item-ran-more-than-once", fmt.Sprintf("item %d ran %d times", id, it.runs))
		}
		if it.inv != 0 && firstCloseRet != 0 && it.inv > firstCloseRet && it.runs > 0 {
			res.violate("item-queued-after-gracefulclose-ran", fmt.Sprintf("item %d was enqueued (seq %d) after GracefulClose returned (seq %d) and still ran", id, it.inv, firstCloseRet))
		}
		// GracefulClose's documented contract ("waits for the operations queue to be cleared"): with
		// several concurrent closers only the one that performs the close is required to wait, so the
		// bound used is the moment every invoked GracefulClose has returned.
		if it.enter != 0 && nCloseInv > 0 && nCloseRet == nCloseInv && it.enter > lastCloseRet {
			res.violate("item-started-after-gracefulclose-returned", fmt.Sprintf("item %d started at seq %d, after every GracefulClose had returned (last at seq %d)", id, it.enter, lastCloseRet))
		}
	}
	// order: real-time order of Enqueue calls must be respected by execution order
	for _, a := range ids {
		for _, b := range ids {
			ia, ib := items[a], items[b]
			if a == b || ia.ret == 0 || ib.inv == 0 || ia.runs == 0 || ib.runs == 0 {
				continue
			}
			if ia.ret < ib.inv && ia.enter > ib.enter {
				res.violate("items-ran-out-of-queue-order", fmt.Sprintf("Enqueue(%d) returned (seq %d) before Enqueue(%d) was called (seq %d) but %d ran first", a, ia.ret, b, ib.inv, b))
			}
		}
	}
	// Done: everything queued before the wait has finished when it returns
	for i, e := range evs {
		if e.kind != "done-inv" {
			continue
		}
		retSeq := 0
		for _, f := range evs[i+1:] {
			if f.kind == "done-ret" && f.task == e.task {
				retSeq = f.seq
				break
			}
		}
		if retSeq == 0 {
			continue
		}
		for _, id := range ids {
			it := items[id]
			if it.ret != 0 && it.ret < e.seq && (firstCloseInv == 0 || it.ret < firstCloseInv) {
				if it.exit == 0 || it.exit > retSeq {
					res.violate("done-returned-before-earlier-item-finished", fmt.Sprintf("Done (task %d) returned at seq %d but item %d, enqueued before it at seq %d, had not finished", e.task, retSeq, id, it.ret))
				}
			}
		}
	}
	// termination and exactly-once lower bound
	if outcome != "done" {
		kinds := []string{}
		for _, u := range unfinished {
			switch {
			case strings.Contains(u, " done:"):
				kinds = append(kinds, "Done")
			case strings.Contains(u, " close:"):
				kinds = append(kinds, "GracefulClose")
			case strings.Contains(u, " enq:"):
				kinds = append(kinds, "Enqueue")
			default:
				kinds = append(kinds, "other")
			}
		}
		cls := "blocked-forever:" + strings.Join(dedupStrings(kinds), "+")
		if outcome == "steps" {
			cls = "no-termination-within-step-bound"
		}
		res.violate(cls, fmt.Sprintf("scheduler outcome %q; unfinished: %s", outcome, strings.Join(unfinished, "; ")))
	} else {
		for _, id := range ids {
			it := items[id]
			if it.ret != 0 && it.runs == 0 && (firstCloseInv == 0 || it.ret < firstCloseInv) {
				res.violate("accepted-item-never-ran", fmt.Sprintf("Enqueue(%d) returned at seq %d, before any GracefulClose was called, but the item never ran", id, it.ret))
			}
		}
	}
	if res.Verdict == "violation" && !c.Strat.UseScr {
		c.Strat.Script = nil
		for _, st := range trace {
			c.Strat.Script = append(c.Strat.Script, st.Task)
		}
		c.Strat.UseScr = true
		res.Case, _ = json.Marshal(&c)
	}
}

func vfSiteLine(site string) int {
	i := strings.LastIndexByte(site, ':')
	n := 0
	for _, ch := range site[i+1:] {
		n = n*10 + int(ch-'0')
	}
	return n
}

func sortInts(a []int) {
	for i := 1; i < len(a); i++ {
		for j := i; j > 0 && a[j] < a[j-1]; j-- {
			a[j], a[j-1] = a[j-1], a[j]
		}
	}
}

func dedupStrings(in []string) []string {
	seen := map[string]bool{}
	var out []string
	for _, s := range in {
		if !seen[s] {
			seen[s] = true
			out = append(out, s)
		}
	}
	for i := 1; i < len(out); i++ {
		for j := i; j > 0 && out[j] < out[j-1]; j-- {
			out[j], out[j-1] = out[j-1], out[j]
		}
	}
	return out
}

func init() {
	vfRegister(&vfProp{
		ID: "C05", Level: "exploration", ReplayClass: "exact",
		Rule: "case = 2-5 tasks (enqueue k items, some items enqueue children or set the negotiation flag; Done; IsEmpty; GracefulClose) on the real operations queue, scheduled by a seeded cooperative scheduler (walk/sticky/PCT) at every lock, atomic and blocking receive of operations.go; non-trivial = schedule with >=1 preemption, distinct = distinct hash of (event history + released task/site sequence)",
		Real: []string{"operations.go (whole, instrumented copy)"},
		Stub: []string{"queued operations are logging closures", "onNegotiationNeeded is a harness closure that optionally re-enqueues"},
		Assumptions: []string{"GracefulClose's documented contract (waits for the queue to be cleared) is checked in addition to the statement's 'nothing queued later runs'",
			"instrumentation is syntactic: lock/atomic/receive sites in operations.go are the only places tasks interact"},
		Shrink: []string{"tasks", "strat.script"},
		Gen:    c05Gen, Run: c05Run,
	})
}
