//go:build !js

package webrtc

// Harness core: worker entry point (TestVerif), PRNG, result protocol.
// This file is added to package webrtc through a build overlay; /repo is never edited.

import (
	"bufio"
	"crypto/sha256"
	"encoding/hex"
	"encoding/json"
	"fmt"
	"os"
	"runtime"
	"runtime/debug"
	"sort"
	"strconv"
	"strings"
	"sync"
	"testing"
	"testing/synctest"
	"time"

	"verifsim/simrt"
)

// ---------------------------------------------------------------- PRNG

type vfRand struct{ s uint64 }

func vfMix(x uint64) uint64 {
	x += 0x9e3779b97f4a7c15
	x = (x ^ (x >> 30)) * 0xbf58476d1ce4e5b9
	x = (x ^ (x >> 27)) * 0x94d049bb133111eb
	return x ^ (x >> 31)
}

func vfHashStr(s string) uint64 {
	h := uint64(1469598103934665603)
	for i := 0; i < len(s); i++ {
		h ^= uint64(s[i])
		h *= 1099511628211
	}
	return h
}

// vfH is the pure decision function H(seed, stream, counter).
func vfH(seed uint64, stream string, ctr uint64) uint64 {
	return vfMix(vfMix(seed^vfHashStr(stream)) + ctr*0x9e3779b97f4a7c15)
}

func vfNewRand(seed uint64, stream string) *vfRand {
	return &vfRand{s: vfMix(seed ^ vfHashStr(stream))}
}

func (r *vfRand) U64() uint64 {
	r.s += 0x9e3779b97f4a7c15
	x := r.s
	x = (x ^ (x >> 30)) * 0xbf58476d1ce4e5b9
	x = (x ^ (x >> 27)) * 0x94d049bb133111eb
	return x ^ (x >> 31)
}

func (r *vfRand) Intn(n int) int {
	if n <= 0 {
		return 0
	}
	return int(r.U64() % uint64(n))
}

func (r *vfRand) Range(lo, hi int) int { return lo + r.Intn(hi-lo+1) }

func (r *vfRand) Bool(p float64) bool { return float64(r.U64()>>11)/float64(1<<53) < p }

func (r *vfRand) Float() float64 { return float64(r.U64()>>11) / float64(1<<53) }

func (r *vfRand) Bytes(n int) []byte {
	b := make([]byte, n)
	for i := 0; i < n; i += 8 {
		v := r.U64()
		for j := 0; j < 8 && i+j < n; j++ {
			b[i+j] = byte(v >> (8 * j))
		}
	}
	return b
}

func vfPick[T any](r *vfRand, xs []T) T { return xs[r.Intn(len(xs))] }

// ---------------------------------------------------------------- result protocol

type vfResult struct {
	Seed       uint64           `json:"seed"`
	Verdict    string           `json:"verdict"` // ok | violation | error
	Class      string           `json:"class,omitempty"`
	Detail     string           `json:"detail,omitempty"`
	Case       json.RawMessage  `json:"case,omitempty"`
	Sig        string           `json:"sig,omitempty"`        // hash of the event log
	Nontrivial string           `json:"nontrivial,omitempty"` // key; empty = trivial
	Stats      map[string]int64 `json:"stats,omitempty"`
	SimNs      int64            `json:"sim_ns,omitempty"`
	Steps      int              `json:"steps,omitempty"`
	Log        []string         `json:"log,omitempty"`
	WallUs     int64            `json:"wall_us,omitempty"`
	// restart: the run left a goroutine spinning inside the code under test (a call that never
	// returns cannot be stopped); the worker exits with status 4 after reporting and the runner
	// starts a fresh process for the remaining runs
	restart bool
}

func (r *vfResult) stat(k string, n int64) {
	if r.Stats == nil {
		r.Stats = map[string]int64{}
	}
	r.Stats[k] += n
}

func (r *vfResult) violate(class, detail string) {
	if r.Verdict == "violation" {
		return // first violation wins
	}
	r.Verdict = "violation"
	r.Class = class
	r.Detail = detail
}

type vfProp struct {
	ID          string
	Level       string // exploration | fault_enumeration
	ReplayClass string // exact | decision-exact
	Rule        string
	Real        []string
	Stub        []string
	Assumptions []string
	Shrink      []string // names of array fields of the case that the shrinker may reduce
	// Gen returns the case for run index idx of a batch (seed decides everything random).
	// total is the batch size (enumerations use idx/total).
	Gen func(seed uint64, idx, total int, tier string) any
	// Count, if set, returns the number of cases an exhaustive tier needs (overrides the default).
	Count func(tier string) int
	Run   func(t *testing.T, caseJSON []byte, res *vfResult)
}

var vfProps = map[string]*vfProp{}

func vfRegister(p *vfProp) { vfProps[p.ID] = p }

func vfSig(lines []string) string {
	h := sha256.New()
	for _, l := range lines {
		h.Write([]byte(l))
		h.Write([]byte{'\n'})
	}
	return hex.EncodeToString(h.Sum(nil))[:16]
}

func vfSortedKeys[V any](m map[string]V) []string {
	ks := make([]string, 0, len(m))
	for k := range m {
		ks = append(ks, k)
	}
	sort.Strings(ks)
	return ks
}

// vfBubble runs f inside a synctest bubble and converts the end-of-bubble deadlock panic
// ("blocked goroutines remain") into a return value.
func vfBubble(t *testing.T, f func(t *testing.T)) (leftover string) {
	defer func() {
		if r := recover(); r != nil {
			s := fmt.Sprint(r)
			if strings.Contains(s, "deadlock") || strings.Contains(s, "blocked goroutines") {
				leftover = s
				return
			}
			panic(r)
		}
	}()
	synctest.Test(t, f)
	return ""
}

var vfOutMu sync.Mutex

// TestVerif is the worker entry point. Environment:
//
//	VERIF_PROP   property id
//	VERIF_MODE   gen | replay | describe
//	VERIF_BASE   base seed;  VERIF_FROM, VERIF_N  run index range;  VERIF_TOTAL  batch size
//	VERIF_TIER   quick | thorough
//	VERIF_CASE   replay: path of a JSON file holding the case (or a replay file with .case)
//	VERIF_OUT    JSONL output path
//	VERIF_RUN_TIMEOUT  per-run wall-clock watchdog in seconds (default 120)
func TestVerif(t *testing.T) {
	id := os.Getenv("VERIF_PROP")
	if id == "" {
		t.Skip("VERIF_PROP not set")
	}
	mode := os.Getenv("VERIF_MODE")
	if mode == "describe" {
		out := map[string]any{}
		for _, k := range vfSortedKeys(vfProps) {
			p := vfProps[k]
			out[k] = map[string]any{"level": p.Level, "replay_class": p.ReplayClass, "rule": p.Rule, "real": p.Real,
				"stub": p.Stub, "assumptions": p.Assumptions, "shrink": p.Shrink}
		}
		b, _ := json.Marshal(out)
		_ = os.WriteFile(os.Getenv("VERIF_OUT"), b, 0o644)
		return
	}
	p := vfProps[id]
	if p == nil {
		fmt.Fprintln(os.Stderr, "unknown property", id)
		os.Exit(2)
	}
	tier := os.Getenv("VERIF_TIER")
	if tier == "" {
		tier = "quick"
	}
	of, err := os.OpenFile(os.Getenv("VERIF_OUT"), os.O_CREATE|os.O_WRONLY|os.O_APPEND, 0o644)
	if err != nil {
		fmt.Fprintln(os.Stderr, "VERIF_OUT:", err)
		os.Exit(2)
	}
	defer of.Close()
	w := bufio.NewWriter(of)
	emit := func(v any) {
		vfOutMu.Lock()
		defer vfOutMu.Unlock()
		b, _ := json.Marshal(v)
		w.Write(b)
		w.WriteByte('\n')
		w.Flush()
	}
	timeout := 120
	if s := os.Getenv("VERIF_RUN_TIMEOUT"); s != "" {
		timeout, _ = strconv.Atoi(s)
	}
	debug.SetGCPercent(400)

	runOne := func(seed uint64, cj []byte, keepCase bool) {
		emit(map[string]any{"start": seed, "case": json.RawMessage(cj)})
		res := &vfResult{Seed: seed, Verdict: "ok"}
		done := make(chan struct{})
		go func() { // real-time watchdog (outside any bubble)
			select {
			case <-done:
			case <-time.After(time.Duration(timeout) * time.Second):
				buf := make([]byte, 1<<20)
				n := runtime.Stack(buf, true)
				emit(map[string]any{"stuck": seed, "locks": simrt.BlockedReport(), "stacks": string(buf[:n])})
				os.Exit(3)
			}
		}()
		t0 := time.Now()
		func() {
			defer func() {
				if r := recover(); r != nil {
					res.Verdict = "error"
					res.Detail = fmt.Sprintf("panic on harness goroutine: %v\n%s", r, debug.Stack())
				}
			}()
			simrt.Reset()
			p.Run(t, cj, res)
		}()
		if n := simrt.NRecursiveRLock.Load(); n > 0 {
			res.stat("recursive_read_lock_acquisitions_held_back_by_the_scheduler", n)
		}
		simrt.Reset()
		close(done)
		res.WallUs = time.Since(t0).Microseconds()
		if len(res.Case) > 0 {
			// the harness rewrote the case (e.g. recorded schedule for exact replay)
		} else if keepCase || res.Verdict != "ok" {
			res.Case = cj
		} else {
			res.Log = nil
		}
		emit(res)
		if res.restart {
			os.Exit(4)
		}
	}

	switch mode {
	case "replay":
		raw, err := os.ReadFile(os.Getenv("VERIF_CASE"))
		if err != nil {
			fmt.Fprintln(os.Stderr, "VERIF_CASE:", err)
			os.Exit(2)
		}
		var wrap struct {
			Seed uint64          `json:"seed"`
			Case json.RawMessage `json:"case"`
		}
		if json.Unmarshal(raw, &wrap) == nil && len(wrap.Case) > 0 {
			runOne(wrap.Seed, wrap.Case, true)
		} else {
			runOne(0, raw, true)
		}
	default:
		base, _ := strconv.ParseUint(os.Getenv("VERIF_BASE"), 10, 64)
		from, _ := strconv.Atoi(os.Getenv("VERIF_FROM"))
		n, _ := strconv.Atoi(os.Getenv("VERIF_N"))
		total, _ := strconv.Atoi(os.Getenv("VERIF_TOTAL"))
		keep, _ := strconv.Atoi(os.Getenv("VERIF_KEEP"))
		for i := from; i < from+n; i++ {
			seed := vfMix(base)<<24 ^ uint64(i)
			c := p.Gen(seed, i, total, tier)
			cj, err := json.Marshal(c)
			if err != nil {
				fmt.Fprintln(os.Stderr, "marshal case:", err)
				os.Exit(2)
			}
			runOne(seed, cj, i < keep)
		}
	}
}

// vfKeepSchedule stores the released-task sequence of a failing coop run in the case, so that
// the replay follows exactly the same schedule (and the shrinker can cut it).
func vfKeepSchedule(res *vfResult, strat *simrt.Strategy, trace []simrt.Step, c any) {
	if res.Verdict != "violation" || strat.UseScr {
		return
	}
	strat.Script = nil
	for _, st := range trace {
		strat.Script = append(strat.Script, st.Task)
	}
	strat.UseScr = true
	res.Case, _ = json.Marshal(c)
}
