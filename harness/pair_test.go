//go:build !js

package webrtc

// Connected-pair simulations that need the whole stack to come up (Engine B, free mode):
// C13 (complementary ICE/DTLS roles over the complete 48-entry configuration matrix) and
// C14 (DTLS authenticates the peer against the signaled fingerprint, with the signaling
// channel acting as man in the middle).

import (
	"context"
	"crypto/ecdsa"
	"crypto/elliptic"
	"crypto/rand"
	"crypto/rsa"
	"crypto/sha256"
	"crypto/tls"
	"encoding/hex"
	"encoding/json"
	"fmt"
	"strings"
	"sync"
	"testing"
	"time"

	"github.com/pion/dtls/v3"
	"github.com/pion/transport/v4"
	"github.com/pion/webrtc/v4/internal/mux"
)

// vfSetupOf returns the a=setup values of a description, one per m-section ("" = absent).
func vfSetupOf(sdp string) []string {
	var out []string
	p := vfParseSDP(sdp)
	for _, s := range p.Sections {
		v := vfAttrVals(s.Attrs, "setup")
		if len(v) == 0 {
			v = vfAttrVals(p.Attrs, "setup")
		}
		if len(v) == 0 {
			out = append(out, "")
		} else {
			out = append(out, v[0])
		}
	}
	return out
}

func vfRewriteLines(sdp string, f func(line string) (string, bool)) string {
	lines := strings.Split(strings.TrimRight(sdp, "\r\n"), "\r\n")
	var out []string
	for _, l := range lines {
		if nl, keep := f(l); keep {
			out = append(out, nl)
		}
	}
	return strings.Join(out, "\r\n") + "\r\n"
}

// vfHelloWatcher records which host sent the first DTLS ClientHello.
type vfHelloWatcher struct {
	mu    sync.Mutex
	first string
}

func (w *vfHelloWatcher) filter(from, to string, p []byte) []byte {
	// DTLS record: type 22 (handshake), then version(2) epoch(2) seq(6) len(2), handshake type at byte 13
	if len(p) > 13 && p[0] == 22 && p[13] == 1 {
		w.mu.Lock()
		if w.first == "" {
			w.first = from
		}
		w.mu.Unlock()
	}
	return p
}

// ---------------------------------------------------------------- C13

type c13Case struct {
	LiteA      bool   `json:"lite_a"`
	LiteB      bool   `json:"lite_b"`
	AnswerRole int    `json:"answer_role"` // 0 unset 1 client 2 server
	OfferSetup string `json:"offer_setup"` // actpass active passive absent
	NetSeed    uint64 `json:"net_seed"`
	DelayUs    int    `json:"delay_us"`
	// RejectFirst: the offer starts with a video section the answerer has no codec for, so the
	// answer's first m-section is a rejected one (no a=setup in it)
	RejectFirst bool `json:"reject_first,omitempty"`
	// Padded: the signaling channel leaves white space behind the a=ice-lite property attribute
	// (both directions); the line means the same
	Padded bool `json:"padded,omitempty"`
}

func c13Gen(seed uint64, idx, total int, tier string) any {
	r := vfNewRand(seed, "c13")
	k := idx % 48
	return &c13Case{LiteA: k&1 != 0, LiteB: k&2 != 0, AnswerRole: (k >> 2) % 3, OfferSetup: []string{"actpass", "active", "passive", "absent"}[(k/12)%4],
		NetSeed: r.U64(), DelayUs: vfPick(r, []int{0, 1000, 20000}), RejectFirst: (idx/48)%2 == 1, Padded: (idx/96)%2 == 1}
}

func c13Run(t *testing.T, cj []byte, res *vfResult) {
	var c c13Case
	if err := json.Unmarshal(cj, &c); err != nil {
		res.Verdict, res.Detail = "error", err.Error()
		return
	}
	cfg := fmt.Sprintf("liteA=%v liteB=%v answerRole=%d offerSetup=%s", c.LiteA, c.LiteB, c.AnswerRole, c.OfferSetup)
	res.Nontrivial = cfg // the 48-entry matrix of the property; the rejected-first-section variant repeats it
	if c.RejectFirst {
		cfg += " rejectedFirstSection"
		res.stat("runs_with_rejected_first_section", 1)
	}
	var lines []string
	vfBubble(t, func(t *testing.T) {
		t0 := time.Now()
		nw, err := vfNewNetSim(c.NetSeed, vfNetCfg{BaseDelayUs: c.DelayUs})
		if err != nil {
			res.Verdict, res.Detail = "error", err.Error()
			return
		}
		hw := &vfHelloWatcher{}
		nw.filter = hw.filter
		ha, _ := nw.addHost("10.0.1.2")
		hb, _ := nw.addHost("10.0.2.2")
		_ = nw.Start()
		a, err := vfNewPeer("A", ha, func(se *SettingEngine, me *MediaEngine, cf *Configuration) { se.SetLite(c.LiteA) })
		if err != nil {
			res.Verdict, res.Detail = "error", err.Error()
			return
		}
		b, err := vfNewPeer("B", hb, func(se *SettingEngine, me *MediaEngine, cf *Configuration) {
			se.SetLite(c.LiteB)
			switch c.AnswerRole {
			case 1:
				_ = se.SetAnsweringDTLSRole(DTLSRoleClient)
			case 2:
				_ = se.SetAnsweringDTLSRole(DTLSRoleServer)
			}
			if c.RejectFirst {
				_ = me.RegisterCodec(RTPCodecParameters{RTPCodecCapability: RTPCodecCapability{MimeType: MimeTypeOpus, ClockRate: 48000, Channels: 2}, PayloadType: 111}, RTPCodecTypeAudio)
			}
		})
		if err != nil {
			res.Verdict, res.Detail = "error", err.Error()
			return
		}
		defer func() {
			_ = a.pc.Close()
			_ = b.pc.Close()
			nw.Stop()
			res.SimNs = int64(time.Since(t0))
		}()
		if c.RejectFirst {
			if _, err = a.pc.AddTransceiverFromKind(RTPCodecTypeVideo, RTPTransceiverInit{Direction: RTPTransceiverDirectionRecvonly}); err != nil {
				res.Verdict, res.Detail = "error", err.Error()
				return
			}
		}
		if _, err = a.pc.CreateDataChannel("d", nil); err != nil {
			res.Verdict, res.Detail = "error", err.Error()
			return
		}
		offer, err := a.pc.CreateOffer(nil)
		if err == nil {
			err = a.pc.SetLocalDescription(offer)
		}
		if err != nil {
			res.Verdict, res.Detail = "error", "offer: "+err.Error()
			return
		}
		full := vfGatherDone(a)
		sent := *full
		// the signaling channel rewrites the offer's a=setup (A's own copy stays actpass)
		sent.SDP = vfRewriteLines(full.SDP, func(l string) (string, bool) {
			if c.Padded && l == "a=ice-lite" {
				return "a=ice-lite ", true
			}
			if strings.HasPrefix(l, "a=setup:") {
				switch c.OfferSetup {
				case "absent":
					return "", false
				case "actpass":
					return l, true
				default:
					return "a=setup:" + c.OfferSetup, true
				}
			}
			return l, true
		})
		if err = b.pc.SetRemoteDescription(sent); err != nil {
			lines = append(lines, "B rejected the offer: "+err.Error())
			res.stat("offer_rejected_by_answerer", 1)
			return // an error is a legal reaction to an offer without / with an unusual setup
		}
		answer, err := b.pc.CreateAnswer(nil)
		if err != nil {
			lines = append(lines, "CreateAnswer failed: "+err.Error())
			res.stat("createanswer_failed", 1)
			return
		}
		ansSetup := vfSetupOf(answer.SDP)
		lines = append(lines, fmt.Sprintf("offer setup seen by B %v, answer setup %v", vfSetupOf(sent.SDP), ansSetup))
		var accepted []string
		for i, sec := range vfParseSDP(answer.SDP).Sections {
			if sec.Port != 0 && i < len(ansSetup) {
				accepted = append(accepted, ansSetup[i])
			}
		}
		ansSetup = accepted
		for _, sv := range ansSetup {
			if sv != "active" && sv != "passive" {
				res.violate("answer-setup-not-active-or-passive:"+sv, fmt.Sprintf("%s: answer a=setup is %q", cfg, sv))
			}
			if (c.OfferSetup == "active" && sv == "active") || (c.OfferSetup == "passive" && sv == "passive") {
				res.violate("answer-setup-conflicts-with-offer-setup:"+c.OfferSetup, fmt.Sprintf("%s: the offer said a=setup:%s and the answer says a=setup:%s — both ends claim the same DTLS role", cfg, c.OfferSetup, sv))
			}
		}
		if err = b.pc.SetLocalDescription(answer); err != nil {
			res.Verdict, res.Detail = "error", "B.SetLocalDescription: "+err.Error()
			return
		}
		back := *vfGatherDone(b)
		if c.Padded {
			back.SDP = vfRewriteLines(back.SDP, func(l string) (string, bool) {
				if l == "a=ice-lite" {
					return "a=ice-lite ", true
				}
				return l, true
			})
		}
		if err = a.pc.SetRemoteDescription(back); err != nil {
			lines = append(lines, "A rejected the answer: "+err.Error())
			return
		}
		if c.RejectFirst {
			// pion puts no a=candidate lines into a description whose first m-section is a rejected
			// one (outside what C13 states); the answerer's candidates are trickled instead so that
			// a lite answerer, which sends no checks of its own, stays reachable
			if cands, cerr := b.pc.iceGatherer.GetLocalCandidates(); cerr == nil {
				for _, cand := range cands {
					_ = a.pc.AddICECandidate(cand.ToJSON())
				}
			}
		}
		bothLite := c.LiteA && c.LiteB
		connected := vfWaitFor(45*time.Second, func() bool {
			return a.pc.dtlsTransport.State() == DTLSTransportStateConnected && b.pc.dtlsTransport.State() == DTLSTransportStateConnected
		})
		vfDrain(60*time.Second, a, b)
		ra, rb := a.pc.iceTransport.Role(), b.pc.iceTransport.Role()
		lines = append(lines, fmt.Sprintf("ICE roles A=%s B=%s; ICE states A=%s B=%s; DTLS states A=%s B=%s; first ClientHello from %s", ra, rb, a.pc.ICEConnectionState(), b.pc.ICEConnectionState(), a.pc.dtlsTransport.State(), b.pc.dtlsTransport.State(), hw.first))
		// ICE: exactly one controlling, RFC 8445 6.1.1
		wantA, wantB := ICERoleControlling, ICERoleControlled // both full or both lite: the offerer controls
		if c.LiteA && !c.LiteB {
			wantA, wantB = ICERoleControlled, ICERoleControlling
		}
		if ra != ICERole(0) && rb != ICERole(0) {
			if ra == rb {
				res.violate("ice-roles-not-complementary:"+ra.String(), fmt.Sprintf("%s: both agents are %s", cfg, ra))
			} else if ra != wantA || rb != wantB {
				res.violate("ice-roles-differ-from-rfc8445", fmt.Sprintf("%s: A=%s B=%s, RFC 8445 6.1.1 gives A=%s B=%s", cfg, ra, rb, wantA, wantB))
			}
		}
		if bothLite {
			res.stat("lite_lite_runs", 1)
			return // nobody sends checks: DTLS never starts
		}
		if len(ansSetup) == 0 || res.Verdict != "ok" {
			return
		}
		// DTLS: the answerer is the client iff it answered active; the offerer takes the other role
		wantClient := "10.0.1.2" // A
		if ansSetup[0] == "active" {
			wantClient = "10.0.2.2"
		}
		hw.mu.Lock()
		first := hw.first
		hw.mu.Unlock()
		if !connected {
			res.violate("dtls-did-not-connect", fmt.Sprintf("%s: answer a=setup:%s, DTLS states A=%s B=%s after 45 s fake on a fault-free network (first ClientHello from %q)", cfg, ansSetup[0], a.pc.dtlsTransport.State(), b.pc.dtlsTransport.State(), first))
			return
		}
		res.stat("runs_dtls_connected_both_ends", 1)
		if !strings.HasPrefix(first, wantClient+":") {
			res.violate("dtls-client-differs-from-exchanged-setup", fmt.Sprintf("%s: answer a=setup:%s makes %s the DTLS client, the first ClientHello came from %s", cfg, ansSetup[0], wantClient, first))
		}
		da, db := a.pc.dtlsTransport.role(), b.pc.dtlsTransport.role()
		if da == db {
			res.violate("dtls-roles-not-complementary", fmt.Sprintf("%s: both transports report DTLS role %s", cfg, da))
		}
	})
	res.Log = append([]string{cfg}, lines...)
	res.Sig = vfSig(res.Log)
}

// ---------------------------------------------------------------- C14

type c14Case struct {
	Tamper   string `json:"tamper"` // none flip-digit hash-sha1 hash-sha384 delete move-level lower-case
	Target   string `json:"target"` // offer (B is the victim) | answer (A is the victim)
	CertA    string `json:"cert_a"` // default | ecdsa | rsa
	CertB    string `json:"cert_b"`
	MediaFP  bool   `json:"media_fp"`  // fingerprints at media level
	NoVerify bool   `json:"no_verify"` // victim disabled fingerprint verification
	Reissue  bool   `json:"reissue"`   // before offering, A tries SetConfiguration with a new certificate for the same key
	Digit    int    `json:"digit"`     // which hex digit to alter
	NetSeed  uint64 `json:"net_seed"`
}

func c14Gen(seed uint64, idx, total int, tier string) any {
	r := vfNewRand(seed, "c14")
	c := &c14Case{Tamper: vfPick(r, []string{"none", "flip-digit", "flip-digit", "flip-digit", "hash-sha1", "hash-sha384", "hash-unknown", "hash-unknown", "delete", "move-level", "lower-case", "chain"}),
		Target: vfPick(r, []string{"offer", "answer"}), CertA: vfPick(r, []string{"default", "default", "ecdsa", "rsa"}), CertB: vfPick(r, []string{"default", "default", "ecdsa", "rsa"}),
		MediaFP: r.Bool(0.4), NoVerify: r.Bool(0.1), Digit: r.Intn(64), NetSeed: r.U64(), Reissue: r.Bool(0.2)}
	if c.Reissue {
		c.CertA = "ecdsa"
	}
	return c
}

var c14LastKey *ecdsa.PrivateKey // the key of the most recent user-supplied ECDSA certificate

func c14Cert(kind string) ([]Certificate, error) {
	switch kind {
	case "ecdsa":
		sk, err := ecdsa.GenerateKey(elliptic.P256(), rand.Reader)
		if err != nil {
			return nil, err
		}
		c14LastKey = sk
		ct, err := GenerateCertificate(sk)
		if err != nil {
			return nil, err
		}
		return []Certificate{*ct}, nil
	case "rsa":
		sk, err := rsa.GenerateKey(rand.Reader, 2048)
		if err != nil {
			return nil, err
		}
		ct, err := GenerateCertificate(sk)
		if err != nil {
			return nil, err
		}
		return []Certificate{*ct}, nil
	}
	return nil, nil
}

func c14TamperSDP(sdp string, c *c14Case) (string, bool) {
	mismatch := false
	switch c.Tamper {
	case "none":
		return sdp, false
	case "delete":
		return vfRewriteLines(sdp, func(l string) (string, bool) { return l, !strings.HasPrefix(l, "a=fingerprint:") }), true
	case "move-level":
		// collect the fingerprint and put it on the other level, value untouched
		fp := ""
		for _, l := range strings.Split(sdp, "\r\n") {
			if strings.HasPrefix(l, "a=fingerprint:") {
				fp = l
			}
		}
		if fp == "" {
			return sdp, false
		}
		session := !strings.Contains(strings.SplitN(sdp, "\r\nm=", 2)[0], "a=fingerprint:")
		stripped := vfRewriteLines(sdp, func(l string) (string, bool) { return l, !strings.HasPrefix(l, "a=fingerprint:") })
		if session { // was at media level: move to session level (before the first m=)
			parts := strings.SplitN(stripped, "\r\nm=", 2)
			return parts[0] + "\r\n" + fp + "\r\nm=" + parts[1], false
		}
		// was at session level: repeat in every media section
		return vfRewriteLines(stripped, func(l string) (string, bool) {
			if strings.HasPrefix(l, "a=mid:") {
				return l + "\r\n" + fp, true
			}
			return l, true
		}), false
	}
	out := vfRewriteLines(sdp, func(l string) (string, bool) {
		if !strings.HasPrefix(l, "a=fingerprint:") {
			return l, true
		}
		f := strings.SplitN(strings.TrimPrefix(l, "a=fingerprint:"), " ", 2)
		if len(f) != 2 {
			return l, true
		}
		alg, val := f[0], f[1]
		switch c.Tamper {
		case "flip-digit":
			hexes := []int{}
			for i, ch := range val {
				if ch != ':' {
					hexes = append(hexes, i)
				}
			}
			i := hexes[c.Digit%len(hexes)]
			d := val[i]
			nd := byte('0')
			if d == '0' {
				nd = '1'
			}
			if d >= 'A' && d <= 'F' || d >= 'a' && d <= 'f' {
				nd = '7'
			}
			val = val[:i] + string(nd) + val[i+1:]
			mismatch = true
		case "hash-sha1":
			alg = "sha-1"
			mismatch = true
		case "hash-sha384":
			alg = "sha-384"
			mismatch = true
		case "hash-unknown":
			// a hash name the verifier cannot compute, with a value that is not the certificate's digest
			alg = []string{"sha3-256", "sha256", "md5", "x-unknown"}[c.Digit%4]
			val = strings.Repeat("AB:", 31) + "AB"
			mismatch = true
		case "lower-case":
			val = strings.ToLower(val)
		}
		return "a=fingerprint:" + alg + " " + val, true
	})
	return out, mismatch
}

func c14Run(t *testing.T, cj []byte, res *vfResult) {
	var c c14Case
	if err := json.Unmarshal(cj, &c); err != nil {
		res.Verdict, res.Detail = "error", err.Error()
		return
	}
	if c.Tamper == "chain" {
		c14ChainRun(t, &c, res)
		return
	}
	cfg := fmt.Sprintf("tamper=%s target=%s certA=%s certB=%s mediaFP=%v noVerify=%v", c.Tamper, c.Target, c.CertA, c.CertB, c.MediaFP, c.NoVerify)
	var lines []string
	vfBubble(t, func(t *testing.T) {
		t0 := time.Now()
		nw, err := vfNewNetSim(c.NetSeed, vfNetCfg{BaseDelayUs: 2000})
		if err != nil {
			res.Verdict, res.Detail = "error", err.Error()
			return
		}
		ha, _ := nw.addHost("10.0.1.2")
		hb, _ := nw.addHost("10.0.2.2")
		_ = nw.Start()
		mk := func(name string, kind string, victim bool, host any) (*vfPeer, error) {
			certs, err := c14Cert(kind)
			if err != nil {
				return nil, err
			}
			opt := func(se *SettingEngine, me *MediaEngine, cf *Configuration) {
				cf.Certificates = certs
				se.SetSDPMediaLevelFingerprints(c.MediaFP)
				if victim && c.NoVerify {
					se.DisableCertificateFingerprintVerification(true)
				}
			}
			if name == "A" {
				return vfNewPeer(name, ha, opt)
			}
			return vfNewPeer(name, hb, opt)
		}
		a, err := mk("A", c.CertA, c.Target == "answer", nil)
		if err != nil {
			res.Verdict, res.Detail = "error", err.Error()
			return
		}
		b, err := mk("B", c.CertB, c.Target == "offer", nil)
		if err != nil {
			res.Verdict, res.Detail = "error", err.Error()
			return
		}
		defer func() {
			_ = a.pc.Close()
			_ = b.pc.Close()
			nw.Stop()
			res.SimNs = int64(time.Since(t0))
		}()
		var mu sync.Mutex
		got := map[string]int{}
		hook := func(p *vfPeer) {
			p.pc.OnDataChannel(func(d *DataChannel) {
				d.OnMessage(func(m DataChannelMessage) { mu.Lock(); got[p.name]++; mu.Unlock() })
				d.OnOpen(func() { _ = d.SendText("hello from " + p.name) })
			})
		}
		hook(a)
		hook(b)
		if c.Reissue && c14LastKey != nil {
			// a renewed certificate for the same key is a different certificate: whether or not
			// SetConfiguration accepts it, what is advertised must be what DTLS presents
			time.Sleep(time.Second)
			if ct2, err := GenerateCertificate(c14LastKey); err == nil {
				err = a.pc.SetConfiguration(Configuration{Certificates: []Certificate{*ct2}})
				lines = append(lines, fmt.Sprintf("SetConfiguration(re-issued certificate) -> %v", err))
				res.stat("runs_with_reissued_certificate", 1)
			}
		}
		dc, err := a.pc.CreateDataChannel("d", nil)
		if err != nil {
			res.Verdict, res.Detail = "error", err.Error()
			return
		}
		dc.OnMessage(func(m DataChannelMessage) { mu.Lock(); got["A"]++; mu.Unlock() })
		dc.OnOpen(func() { _ = dc.SendText("hello from A") })
		offer, err := a.pc.CreateOffer(nil)
		if err == nil {
			err = a.pc.SetLocalDescription(offer)
		}
		if err != nil {
			res.Verdict, res.Detail = "error", "offer: "+err.Error()
			return
		}
		od := *vfGatherDone(a)
		mismatch := false
		if c.Target == "offer" {
			od.SDP, mismatch = c14TamperSDP(od.SDP, &c)
		}
		if err = b.pc.SetRemoteDescription(od); err != nil {
			lines = append(lines, "B rejected the offer: "+err.Error())
			res.stat("description_rejected", 1)
			return
		}
		ans, err := b.pc.CreateAnswer(nil)
		if err == nil {
			err = b.pc.SetLocalDescription(ans)
		}
		if err != nil {
			res.Verdict, res.Detail = "error", "answer: "+err.Error()
			return
		}
		ad := *vfGatherDone(b)
		if c.Target == "answer" {
			ad.SDP, mismatch = c14TamperSDP(ad.SDP, &c)
		}
		if err = a.pc.SetRemoteDescription(ad); err != nil {
			lines = append(lines, "A rejected the answer: "+err.Error())
			res.stat("description_rejected", 1)
			return
		}
		victim, other := b, a
		if c.Target == "answer" {
			victim, other = a, b
		}
		connected := vfWaitFor(30*time.Second, func() bool {
			return a.pc.dtlsTransport.State() == DTLSTransportStateConnected && b.pc.dtlsTransport.State() == DTLSTransportStateConnected
		})
		// sample the victim's DTLS state over the whole window: it must never be connected on a mismatch
		everConnected := victim.pc.dtlsTransport.State() == DTLSTransportStateConnected
		for i := 0; i < 60 && !connected; i++ {
			vfSettle(500 * time.Millisecond)
			if victim.pc.dtlsTransport.State() == DTLSTransportStateConnected {
				everConnected = true
			}
		}
		vfSettle(2 * time.Second)
		mu.Lock()
		gv, go2 := got[victim.name], got[other.name]
		mu.Unlock()
		lines = append(lines, fmt.Sprintf("mismatch=%v DTLS victim(%s)=%s other=%s messages victim=%d other=%d", mismatch, victim.name, victim.pc.dtlsTransport.State(), other.pc.dtlsTransport.State(), gv, go2))
		// (a) the advertised fingerprint is the SHA-256 of the certificate the other side received
		for _, pr := range [][2]*vfPeer{{a, b}, {b, a}} {
			owner, peer := pr[0], pr[1]
			der := peer.pc.dtlsTransport.GetRemoteCertificate()
			if len(der) == 0 {
				continue
			}
			sum := sha256.Sum256(der)
			want := strings.ToUpper(hex.EncodeToString(sum[:]))
			ld := owner.pc.LocalDescription()
			found := false
			for _, l := range strings.Split(ld.SDP, "\r\n") {
				if strings.HasPrefix(l, "a=fingerprint:sha-256 ") {
					if strings.ReplaceAll(strings.ToUpper(strings.TrimPrefix(l, "a=fingerprint:sha-256 ")), ":", "") == want {
						found = true
					}
				}
			}
			if !found {
				res.violate("advertised-fingerprint-is-not-the-presented-certificate", fmt.Sprintf("%s: %s's description does not carry the SHA-256 fingerprint %s of the certificate %s received", cfg, owner.name, want, peer.name))
			}
			res.stat("fingerprint_vs_presented_certificate_checked", 1)
		}
		switch {
		case mismatch && !c.NoVerify:
			res.stat("runs_with_mismatching_fingerprint", 1)
			if everConnected || victim.pc.dtlsTransport.State() == DTLSTransportStateConnected {
				res.violate("dtls-connected-despite-fingerprint-mismatch:"+c.Tamper, fmt.Sprintf("%s: %s applied a description whose fingerprint does not match the peer's certificate and its DTLS transport reached connected", cfg, victim.name))
			}
			if gv > 0 {
				res.violate("message-delivered-despite-fingerprint-mismatch:"+c.Tamper, fmt.Sprintf("%s: %s delivered %d data channel message(s) from the unauthenticated peer", cfg, victim.name, gv))
			}
		case !mismatch:
			res.stat("runs_with_matching_fingerprint", 1)
			if !connected {
				res.violate("no-connection-with-matching-fingerprint:"+c.Tamper, fmt.Sprintf("%s: DTLS states A=%s B=%s after 30 s fake", cfg, a.pc.dtlsTransport.State(), b.pc.dtlsTransport.State()))
			} else if gv == 0 || go2 == 0 {
				if !vfWaitFor(20*time.Second, func() bool { mu.Lock(); defer mu.Unlock(); return got["A"] > 0 && got["B"] > 0 }) {
					res.violate("no-message-with-matching-fingerprint", fmt.Sprintf("%s: connected but messages A=%d B=%d", cfg, got["A"], got["B"]))
				}
			}
		}
	})
	res.Log = append([]string{cfg}, lines...)
	res.Sig = vfSig(res.Log)
	res.Nontrivial = cfg
}

func init() {
	vfRegister(&vfProp{
		ID: "C13", Level: "fault_enumeration", ReplayClass: "decision-exact",
		Rule: "case index k mod 48 enumerates ICE-lite on A x ICE-lite on B x answering DTLS role {unset, client, server} x offer a=setup {actpass, active, passive, absent}; the next two index bits add a rejected first m-section and white space left behind a=ice-lite by the signaling channel (the signaling channel rewrites the offer's setup; A's own copy stays actpass); each configuration runs a full connection on the simulated network with a seeded delay; distinct non-trivial = distinct configurations executed (48 = complete)",
		Real: []string{"both PeerConnections with real ICE (incl. lite), DTLS, SCTP", "vnet"},
		Stub: []string{"signaling channel rewriting a=setup", "network observer recording the first DTLS ClientHello"},
		Assumptions: []string{"an answerer that rejects an offer with an unusual/absent setup with an error is not a violation", "for lite/lite nobody sends connectivity checks: only the ICE role clause is evaluated",
			"actual DTLS roles are observed on the wire (who sends the first ClientHello)"},
		Gen: c13Gen, Run: c13Run,
	})
	vfRegister(&vfProp{
		ID: "C14", Level: "exploration", ReplayClass: "decision-exact",
		Rule:        "case = a pair with generated or user-supplied ECDSA / RSA-2048 certificates, fingerprints at session or media level; the signaling channel tampers with the fingerprint of the offer (victim B) or the answer (victim A): alter one hex digit, relabel the hash sha-1 / sha-384, delete, move between session and media level (value kept), lower-case (value kept); or an impostor that drives pion/dtls by hand over the library's ICE, authenticates with its own certificate and appends the honest party's certificate to the chain (verifier as DTLS server and as client); 10% of victims disable verification; non-trivial/distinct = distinct (tamper, target, certificates, level, verification) tuples",
		Real:        []string{"both PeerConnections with real ICE, DTLS (certificate verification), SCTP, data channels", "vnet"},
		Stub:        []string{"signaling channel as man in the middle on a=fingerprint"},
		Assumptions: []string{"'never reaches connected' is sampled every 500 ms of fake time for 30 s", "a description rejected by SetRemoteDescription (e.g. fingerprint deleted) ends the run"},
		Gen:         c14Gen, Run: c14Run,
	})
}

// c14ChainRun: the peer that shows up owns another key pair; it authenticates the DTLS handshake
// with its own certificate and appends the honest party's certificate (public: it travels in
// clear in every DTLS 1.2 handshake) behind it in the Certificate message. The signaled
// fingerprint is the honest party's. The verifying side is a DTLSTransport on real ICE (ORTC
// objects on the simulated network); the impostor runs the library's ICE and drives pion/dtls by
// hand, as client or server.
func c14ChainRun(t *testing.T, c *c14Case, res *vfResult) {
	victimIsServer := c.Target == "offer"
	var lines []string
	vfBubble(t, func(t *testing.T) {
		t0 := time.Now()
		nw, err := vfNewNetSim(c.NetSeed, vfNetCfg{BaseDelayUs: 2000})
		if err != nil {
			res.Verdict, res.Detail = "error", err.Error()
			return
		}
		ha, _ := nw.addHost("10.0.1.2")
		hb, _ := nw.addHost("10.0.2.2")
		_ = nw.Start()
		defer func() { nw.Stop(); res.SimNs = int64(time.Since(t0)) }()
		mkAPI := func(host transport.Net) *API {
			se := SettingEngine{}
			se.LoggerFactory = vfSilentLoggers()
			se.SetNet(host)
			se.SetICEMulticastDNSMode(1)
			se.SetNetworkTypes([]NetworkType{NetworkTypeUDP4})
			return NewAPI(WithSettingEngine(se))
		}
		newCert := func() (*Certificate, error) {
			sk, err := ecdsa.GenerateKey(elliptic.P256(), rand.Reader)
			if err != nil {
				return nil, err
			}
			return GenerateCertificate(sk)
		}
		honest, err1 := newCert()
		impostor, err2 := newCert()
		own, err3 := newCert()
		if err1 != nil || err2 != nil || err3 != nil {
			res.Verdict, res.Detail = "error", "certificates"
			return
		}
		honestFP, _ := honest.GetFingerprints()
		va, ia := mkAPI(ha), mkAPI(hb)
		vg, err := va.NewICEGatherer(ICEGatherOptions{})
		if err != nil {
			res.Verdict, res.Detail = "error", err.Error()
			return
		}
		vice := va.NewICETransport(vg)
		vdtls, err := va.NewDTLSTransport(vice, []Certificate{*own})
		if err != nil {
			res.Verdict, res.Detail = "error", err.Error()
			return
		}
		ig, err := ia.NewICEGatherer(ICEGatherOptions{})
		if err != nil {
			res.Verdict, res.Detail = "error", err.Error()
			return
		}
		iice := ia.NewICETransport(ig)
		defer func() { _ = vdtls.Stop(); _ = vice.Stop(); _ = iice.Stop() }()
		var mu sync.Mutex
		var states []DTLSTransportState
		vdtls.OnStateChange(func(s DTLSTransportState) { mu.Lock(); states = append(states, s); mu.Unlock() })
		gather := func(g *ICEGatherer) ([]ICECandidate, ICEParameters, bool) {
			done := make(chan struct{})
			var once sync.Once
			g.OnLocalCandidate(func(cd *ICECandidate) {
				if cd == nil {
					once.Do(func() { close(done) })
				}
			})
			if err := g.Gather(); err != nil {
				return nil, ICEParameters{}, false
			}
			ok := vfWaitFor(10*time.Second, func() bool {
				select {
				case <-done:
					return true
				default:
					return false
				}
			})
			cs, _ := g.GetLocalCandidates()
			ps, _ := g.GetLocalParameters()
			return cs, ps, ok
		}
		vc, vp, ok1 := gather(vg)
		ic, ip, ok2 := gather(ig)
		if !ok1 || !ok2 {
			res.Verdict, res.Detail = "error", "gathering did not finish"
			return
		}
		remoteRole := DTLSRoleClient // the role of the remote (the impostor) as signaled to the verifier
		if !victimIsServer {
			remoteRole = DTLSRoleServer
		}
		var startErr, impErr error
		startDone, impDone := false, false
		go func() {
			role := ICERoleControlling
			e := vice.SetRemoteCandidates(ic)
			if e == nil {
				e = vice.Start(nil, ip, &role)
			}
			if e == nil {
				e = vdtls.Start(DTLSParameters{Role: remoteRole, Fingerprints: honestFP})
			}
			mu.Lock()
			startErr, startDone = e, true
			mu.Unlock()
		}()
		go func() {
			role := ICERoleControlled
			e := iice.SetRemoteCandidates(vc)
			if e == nil {
				e = iice.Start(nil, vp, &role)
			}
			if e == nil {
				endpoint := iice.newEndpoint(mux.MatchDTLS)
				chain := tls.Certificate{Certificate: [][]byte{impostor.x509Cert.Raw, honest.x509Cert.Raw}, PrivateKey: impostor.privateKey}
				var conn *dtls.Conn
				if victimIsServer {
					conn, e = dtls.ClientWithOptions(endpoint, endpoint.RemoteAddr(), dtls.WithCertificates(chain), dtls.WithInsecureSkipVerify(true),
						dtls.WithSRTPProtectionProfiles(defaultSrtpProtectionProfiles()...))
				} else {
					conn, e = dtls.ServerWithOptions(endpoint, endpoint.RemoteAddr(), dtls.WithCertificates(chain), dtls.WithInsecureSkipVerify(true),
						dtls.WithSRTPProtectionProfiles(defaultSrtpProtectionProfiles()...), dtls.WithClientAuth(dtls.RequireAnyClientCert))
				}
				if e == nil {
					ctx, cancel := context.WithTimeout(context.Background(), 20*time.Second)
					e = conn.HandshakeContext(ctx)
					cancel()
					defer func() { _ = conn.Close() }()
				}
			}
			mu.Lock()
			impErr, impDone = e, true
			mu.Unlock()
		}()
		vfWaitFor(40*time.Second, func() bool { mu.Lock(); defer mu.Unlock(); return startDone && impDone })
		mu.Lock()
		defer mu.Unlock()
		lines = append(lines, fmt.Sprintf("verifier is DTLS server=%v; DTLSTransport.Start -> %v; impostor handshake -> %v; verifier states %v", victimIsServer, startErr, impErr, states))
		if !startDone || !impDone {
			res.stat("inconclusive_chain_run_did_not_finish", 1)
			return
		}
		res.stat("runs_with_foreign_certificate_chain", 1)
		connected := vdtls.State() == DTLSTransportStateConnected
		for _, s := range states {
			if s == DTLSTransportStateConnected {
				connected = true
			}
		}
		if connected || (startErr == nil && impErr == nil) {
			res.violate("dtls-connected-with-a-peer-whose-certificate-matches-no-fingerprint:appended-to-chain", fmt.Sprintf("the peer authenticated with its own certificate and merely appended the certificate the signaled fingerprint belongs to; verifier (DTLS server=%v) Start -> %v, states %v, impostor handshake -> %v", victimIsServer, startErr, states, impErr))
		}
	})
	res.Log = lines
	res.Sig = vfSig(lines)
	res.Nontrivial = fmt.Sprintf("chain server=%v", victimIsServer)
}
