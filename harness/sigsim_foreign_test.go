//go:build !js

package webrtc

// The "foreign peer": a generator of syntactically valid offers and answers that pion did not
// write — other media kinds, sparse / non-numeric mids, absent direction attributes, remapped
// payload types, RTX with and without its primary, extmap ids, either fingerprint level.

import (
	"fmt"
	"strings"
)

type sgFSection struct {
	kind   string // audio video application text message
	mid    string
	dir    string // "" = no direction attribute
	codecs []sgFCodec
	port   int
	exts   []string
	msid   bool
	setup  string
}

type sgFCodec struct {
	pt   int
	name string // "opus/48000/2"
	fmtp string
	fb   []string
}

const sgFP = "AA:BB:CC:DD:EE:FF:00:11:22:33:44:55:66:77:88:99:AA:BB:CC:DD:EE:FF:00:11:22:33:44:55:66:77:88:99"

// sgPTState keeps payload types consistent across the bundled sections of one description
// (RFC 8843: one payload type, one codec configuration).
type sgPTState struct {
	used map[int]bool
	byID map[string]int
}

func sgForeignCodecs(r *vfRand, kind string, st *sgPTState) []sgFCodec {
	if st.used == nil {
		st.used, st.byID = map[int]bool{}, map[string]int{}
	}
	fresh := func() int {
		for try := 0; try < 64; try++ {
			p := 96 + r.Intn(32)
			if !st.used[p] {
				st.used[p] = true
				return p
			}
		}
		for _, p := range append(r.perm(32), r.perm(29)...) { // dynamic ranges 96-127, then 35-63
			q := 96 + p
			if st.used[q] {
				q = 35 + p%29
			}
			if !st.used[q] {
				st.used[q] = true
				return q
			}
		}
		return 127 // exhausted: the description reuses a payload type (still one codec per number below)
	}
	pt := fresh
	defer func() {}()
	var out []sgFCodec
	if kind == "audio" {
		if r.Bool(0.85) {
			out = append(out, sgFCodec{pt: pt(), name: vfPick(r, []string{"opus/48000/2", "OPUS/48000/2"}), fmtp: vfPick(r, []string{"minptime=10;useinbandfec=1", ""})})
		}
		if r.Bool(0.4) {
			out = append(out, sgFCodec{pt: 0, name: "PCMU/8000"})
		}
		if r.Bool(0.3) {
			out = append(out, sgFCodec{pt: 9, name: "G722/8000"})
		}
		if r.Bool(0.3) {
			out = append(out, sgFCodec{pt: pt(), name: "telephone-event/8000"}) // unknown to pion
		}
		if len(out) == 0 {
			out = append(out, sgFCodec{pt: pt(), name: "speex/16000"}) // unsupported only
		}
		return sgCanonPT(out, st)
	}
	fb := []string{"nack", "nack pli", "goog-remb", "ccm fir", "transport-cc"}
	if r.Bool(0.8) {
		v := pt()
		out = append(out, sgFCodec{pt: v, name: "VP8/90000", fb: fb[:r.Intn(len(fb)+1)]})
		if r.Bool(0.5) {
			out = append(out, sgFCodec{pt: pt(), name: "rtx/90000", fmtp: fmt.Sprintf("apt=%d", v)})
		}
	}
	if r.Bool(0.5) {
		v := pt()
		out = append(out, sgFCodec{pt: v, name: "H264/90000", fmtp: vfPick(r, []string{
			"level-asymmetry-allowed=1;packetization-mode=1;profile-level-id=42e01f",
			"level-asymmetry-allowed=1;packetization-mode=0;profile-level-id=42e01f",
			"level-asymmetry-allowed=1;packetization-mode=1;profile-level-id=640032"}), fb: fb[:r.Intn(3)]})
		if r.Bool(0.4) {
			out = append(out, sgFCodec{pt: pt(), name: "rtx/90000", fmtp: fmt.Sprintf("apt=%d", v)})
		}
		// browsers list several H264 configurations, each under its own payload type
		for k := r.Intn(3); k > 0; k-- {
			v2 := pt()
			out = append(out, sgFCodec{pt: v2, name: "H264/90000", fmtp: vfPick(r, []string{
				"level-asymmetry-allowed=1;packetization-mode=0;profile-level-id=42e01f",
				"level-asymmetry-allowed=1;packetization-mode=1;profile-level-id=4d001f",
				"level-asymmetry-allowed=1;packetization-mode=1;profile-level-id=640032",
				"level-asymmetry-allowed=1;packetization-mode=0;profile-level-id=42001f",
				// the same profile and packetization as an entry above, at another level
				"level-asymmetry-allowed=1;packetization-mode=1;profile-level-id=42e028",
				"level-asymmetry-allowed=1;packetization-mode=1;profile-level-id=640028"}), fb: fb[:r.Intn(3)]})
			if r.Bool(0.4) {
				out = append(out, sgFCodec{pt: pt(), name: "rtx/90000", fmtp: fmt.Sprintf("apt=%d", v2)})
			}
		}
	}
	if r.Bool(0.3) {
		out = append(out, sgFCodec{pt: pt(), name: "VP9/90000", fmtp: vfPick(r, []string{"profile-id=0", "profile-id=2", ""})})
	}
	if r.Bool(0.2) {
		out = append(out, sgFCodec{pt: pt(), name: "AV1/90000"})
	}
	if r.Bool(0.25) {
		out = append(out, sgFCodec{pt: pt(), name: "rtx/90000", fmtp: "apt=95"}) // RTX whose primary is absent
	}
	if r.Bool(0.2) {
		out = append(out, sgFCodec{pt: pt(), name: "ulpfec/90000"})
	}
	if len(out) == 0 {
		out = append(out, sgFCodec{pt: pt(), name: "theora/90000"}) // unsupported only
	}
	return sgCanonPT(out, st)
}

// sgCanonPT gives a codec configuration that already appeared in this description its earlier
// payload type (and rewrites apt references accordingly).
func sgCanonPT(out []sgFCodec, st *sgPTState) []sgFCodec {
	remap := map[int]int{}
	for i := range out {
		c := &out[i]
		if strings.HasPrefix(c.fmtp, "apt=") {
			continue
		}
		id := strings.ToLower(c.name) + "|" + c.fmtp
		if old, ok := st.byID[id]; ok && old != c.pt {
			remap[c.pt] = old
			c.pt = old
		} else {
			st.byID[id] = c.pt
		}
	}
	for i := range out {
		c := &out[i]
		if strings.HasPrefix(c.fmtp, "apt=") {
			var a int
			fmt.Sscanf(c.fmtp, "apt=%d", &a)
			if n, ok := remap[a]; ok {
				a = n
				c.fmtp = fmt.Sprintf("apt=%d", a)
			}
			id := "rtx|" + c.fmtp
			if old, ok := st.byID[id]; ok {
				c.pt = old
			} else {
				st.byID[id] = c.pt
			}
		}
	}
	// drop duplicates that canonicalisation may have produced inside one section
	seen := map[int]bool{}
	var res []sgFCodec
	for _, c := range out {
		if !seen[c.pt] {
			seen[c.pt] = true
			res = append(res, c)
		}
	}
	return res
}

// sgForeignSession is what the foreign peer remembers between its offers, so that a re-offer is a
// continuation of the session (same mids and kinds at the same positions, same ICE credentials,
// same o= session id with a higher version) and not a different peer's description.
type sgForeignSession struct {
	secs    []sgFSection
	sessID  int
	ver     int
	mediaFP bool
	ufrag   string
	pwd     string
	extOff  int
	pts     *sgPTState
	mids    []string
	trickle bool
}

func sgNewForeignSession(r *vfRand) *sgForeignSession {
	return &sgForeignSession{sessID: 1000000 + r.Intn(1<<30), ver: r.Intn(5), mediaFP: r.Bool(0.3), extOff: r.Intn(14), pts: &sgPTState{},
		ufrag: "fu" + fmt.Sprint(1000+r.Intn(9000)), pwd: "foreignpasswordforeignpw" + fmt.Sprint(10+r.Intn(89)), trickle: r.Bool(0.5)}
}

func sgRenderSections(r *vfRand, secs []sgFSection, fs *sgForeignSession) string {
	var b strings.Builder
	w := func(f string, a ...any) { fmt.Fprintf(&b, f+"\r\n", a...) }
	mediaFP := fs.mediaFP
	fs.ver++
	w("v=0")
	w("o=- %d %d IN IP4 127.0.0.1", fs.sessID, fs.ver)
	w("s=-")
	w("t=0 0")
	var mids []string
	for _, s := range secs {
		if s.port != 0 {
			mids = append(mids, s.mid)
		}
	}
	if len(mids) > 0 {
		w("a=group:BUNDLE %s", strings.Join(mids, " "))
	}
	if !mediaFP {
		w("a=fingerprint:sha-256 %s", sgFP)
	}
	if fs.trickle {
		w("a=ice-options:trickle")
	}
	w("a=msid-semantic: WMS *")
	extOff, ufrag, pwd := fs.extOff, fs.ufrag, fs.pwd
	for si, s := range secs {
		switch s.kind {
		case "application":
			w("m=application %d UDP/DTLS/SCTP webrtc-datachannel", s.port)
		case "text", "message":
			w("m=%s %d RTP/AVP 98", s.kind, s.port)
		default:
			var pts []string
			for _, c := range s.codecs {
				pts = append(pts, fmt.Sprint(c.pt))
			}
			w("m=%s %d UDP/TLS/RTP/SAVPF %s", s.kind, s.port, strings.Join(pts, " "))
		}
		w("c=IN IP4 0.0.0.0")
		w("a=mid:%s", s.mid)
		w("a=ice-ufrag:%s", ufrag)
		w("a=ice-pwd:%s", pwd)
		if mediaFP {
			w("a=fingerprint:sha-256 %s", sgFP)
		}
		if s.setup != "" {
			w("a=setup:%s", s.setup)
		}
		switch s.kind {
		case "application":
			w("a=sctp-port:5000")
			if r.Bool(0.5) {
				w("a=max-message-size:262144")
			}
		case "text", "message":
			w("a=rtpmap:98 t140/1000")
			if s.dir != "" {
				w("a=%s", s.dir)
			}
		default:
			w("a=rtcp-mux")
			if s.dir != "" {
				w("a=%s", s.dir)
			}
			for _, e := range s.exts {
				k := 0
				for j, u := range sgForeignExts {
					if u == e {
						k = j
					}
				}
				w("a=extmap:%d %s", 1+(2*k+extOff)%14, e) // one id per URI in the whole description (BUNDLE)
			}
			for _, c := range s.codecs {
				w("a=rtpmap:%d %s", c.pt, c.name)
				if c.fmtp != "" {
					w("a=fmtp:%d %s", c.pt, c.fmtp)
				}
				for _, f := range c.fb {
					w("a=rtcp-fb:%d %s", c.pt, f)
				}
			}
			if s.msid && (s.dir == "sendrecv" || s.dir == "sendonly" || s.dir == "") {
				ssrc := 100000 + r.Intn(1<<24)
				w("a=msid:fstream-%d ftrack-%d", si, si)
				w("a=ssrc:%d cname:foreign", ssrc)
				w("a=ssrc:%d msid:fstream-%d ftrack-%d", ssrc, si, si)
			}
		}
	}
	return b.String()
}

var sgForeignExts = []string{"urn:ietf:params:rtp-hdrext:sdes:mid", "http://www.webrtc.org/experiments/rtp-hdrext/abs-send-time",
	"urn:ietf:params:rtp-hdrext:ssrc-audio-level", "http://www.ietf.org/id/draft-holmer-rmcat-transport-wide-cc-extensions-01",
	"urn:ietf:params:rtp-hdrext:sdes:rtp-stream-id", "urn:3gpp:video-orientation"}

// sgForeignOffer builds a valid foreign offer. shape selects the mid style; flavor tweaks it:
// "" normal, "text" includes a text m-section, "nodir" omits direction attributes.
func sgForeignOffer(r *vfRand, shape int, flavor string, fs *sgForeignSession) string {
	midStyles := [][]string{{"0", "1", "2", "3", "4", "5", "6", "7"}, {"audio", "video", "data", "v2", "a2", "v3", "a3", "x"}, {"7", "3", "12", "40", "5", "41", "2", "9"},
		{"a1", "0", "x-y", "9", "m4", "1", "zz", "q"}, {"1", "2", "3", "4", "5", "6", "7", "8"},
		{"3", "2", "5", "4", "1", "0", "7", "6"}, {"10", "1", "100", "video-hd", "video", "vid", "v", "2"}, {"2", "1", "0", "4", "3", "6", "5", "8"}}
	if fs.mids == nil {
		fs.mids = midStyles[((shape%len(midStyles))+len(midStyles))%len(midStyles)]
		if flavor == "namedapp" {
			// named mids first, and the application section (which no transceiver stands for) under a number
			fs.mids = []string{"a", "0", "b", "1", "c", "2", "d", "3"}
		}
	}
	hasApp := false
	for _, s := range fs.secs {
		if s.kind == "application" {
			hasApp = true
		}
	}
	newSection := func(i int, last bool) sgFSection {
		// the next mid of the session's style that no section uses yet
		used := map[string]bool{}
		for _, e := range fs.secs {
			used[e.mid] = true
		}
		mid := ""
		for k := 0; k < len(fs.mids) && mid == ""; k++ {
			if c := fs.mids[(i+k)%len(fs.mids)]; !used[c] {
				mid = c
			}
		}
		for k := 0; mid == ""; k++ {
			if c := fmt.Sprintf("n%d", k); !used[c] {
				mid = c
			}
		}
		s := sgFSection{mid: mid, port: 9, setup: "actpass", msid: r.Bool(0.7)}
		switch x := r.Intn(10); {
		case x < 4:
			s.kind = "audio"
		case x < 8:
			s.kind = "video"
		case x < 9 && (!hasApp || flavor == "twoapp"):
			s.kind = "application"
			hasApp = true
		default:
			s.kind = "video"
		}
		if flavor == "namedapp" && i == 1 && !hasApp {
			s.kind = "application"
			hasApp = true
		}
		if flavor == "text" && last {
			s.kind = vfPick(r, []string{"text", "message"})
		}
		s.dir = vfPick(r, []string{"sendrecv", "sendonly", "recvonly", "inactive", "sendrecv"})
		if flavor == "nodir" && r.Bool(0.6) {
			s.dir = ""
			if r.Bool(0.3) && i > 0 {
				s.port = 0 // a disabled m-line: port 0 and no direction attribute at all
			}
		}
		if s.kind == "audio" || s.kind == "video" {
			s.codecs = sgForeignCodecs(r, s.kind, fs.pts)
			for _, k := range r.perm(len(sgForeignExts))[:r.Intn(4)] {
				s.exts = append(s.exts, sgForeignExts[k])
			}
		}
		return s
	}
	if fs.secs == nil {
		n := r.Range(1, 4)
		if flavor == "namedapp" && n < 2 {
			n = 2
		}
		for i := 0; i < n; i++ {
			fs.secs = append(fs.secs, newSection(i, i == n-1))
		}
	} else {
		// re-offer: same sections, directions may change, a section may be appended
		for i := range fs.secs {
			s := &fs.secs[i]
			s.setup = "actpass"
			if s.port == 0 {
				continue
			}
			if (s.kind == "audio" || s.kind == "video") && s.dir != "" && r.Bool(0.6) {
				s.dir = vfPick(r, []string{"sendrecv", "sendonly", "recvonly", "inactive"})
			}
		}
		if r.Bool(0.4) && len(fs.secs) < 7 {
			fs.secs = append(fs.secs, newSection(len(fs.secs), true))
		}
	}
	return sgRenderSections(r, fs.secs, fs)
}

// sgForeignAnswer builds a valid answer to a pion offer: every m-section mirrored, directions
// chosen among the legal responses, a subset of the offered codecs with the offered payload types.
func sgForeignAnswer(r *vfRand, offer string, variant int, fs *sgForeignSession) string {
	p := vfParseSDP(offer)
	var secs []sgFSection
	for _, o := range p.Sections {
		mid, _ := o.Mid()
		s := sgFSection{kind: o.Kind, mid: mid, port: 9, setup: vfPick(r, []string{"active", "passive"})}
		if o.Port == 0 || (o.Kind == "application" && variant%5 == 4) {
			s.port = 0 // e.g. an endpoint without data channel support rejects the application section
		}
		if o.Kind == "audio" || o.Kind == "video" {
			od := o.Direction()
			d := "sendrecv"
			if len(od) > 0 {
				d = od[0]
			}
			switch d {
			case "sendrecv":
				s.dir = vfPick(r, []string{"sendrecv", "recvonly", "sendonly", "inactive"})
			case "sendonly":
				s.dir = vfPick(r, []string{"recvonly", "inactive"})
			case "recvonly":
				s.dir = vfPick(r, []string{"sendonly", "inactive"})
			default:
				s.dir = "inactive"
			}
			s.msid = true
			// codecs: keep a non-empty prefix-ish subset of the offered ones
			rtpmap := map[string]string{}
			fmtp := map[string]string{}
			for _, v := range vfAttrVals(o.Attrs, "rtpmap") {
				f := strings.SplitN(v, " ", 2)
				if len(f) == 2 {
					rtpmap[f[0]] = f[1]
				}
			}
			for _, v := range vfAttrVals(o.Attrs, "fmtp") {
				f := strings.SplitN(v, " ", 2)
				if len(f) == 2 {
					fmtp[f[0]] = f[1]
				}
			}
			for i, pt := range o.Fmts {
				if i > 0 && r.Bool(0.35) {
					continue
				}
				var n int
				fmt.Sscan(pt, &n)
				if rtpmap[pt] == "" {
					continue
				}
				s.codecs = append(s.codecs, sgFCodec{pt: n, name: rtpmap[pt], fmtp: fmtp[pt]})
			}
			if len(s.codecs) == 0 || (variant%7 == 3 && r.Bool(0.5)) {
				s.port = 0 // rejected section
				if len(s.codecs) == 0 {
					s.codecs = []sgFCodec{{pt: 0, name: "PCMU/8000"}}
				}
			}
			for _, v := range vfAttrVals(o.Attrs, "extmap") {
				f := strings.Fields(v)
				if len(f) == 2 && r.Bool(0.7) {
					s.exts = append(s.exts, f[1])
				}
			}
			s.exts = nil // extension ids must equal the offered ones; keep the answer simple
		}
		secs = append(secs, s)
	}
	fs.mediaFP = !strings.Contains(strings.SplitN(offer, "m=", 2)[0], "a=fingerprint")
	// the session continues from here: a later foreign offer re-offers exactly these sections
	fs.secs = append([]sgFSection{}, secs...)
	if fs.mids == nil {
		fs.mids = []string{"f0", "f1", "f2", "f3", "f4", "f5", "f6", "f7", "f8", "f9"}
	}
	for _, sec := range secs {
		for _, c := range sec.codecs {
			if fs.pts.used == nil {
				fs.pts.used, fs.pts.byID = map[int]bool{}, map[string]int{}
			}
			fs.pts.used[c.pt] = true
			if !strings.HasPrefix(c.fmtp, "apt=") {
				fs.pts.byID[strings.ToLower(c.name)+"|"+c.fmtp] = c.pt
			}
		}
	}
	return sgRenderSections(r, secs, fs)
}
