//go:build !js

package webrtc

// C11 — SDP origin keeps a fixed session id and a strictly increasing version.
// Engine B focus-coop: 1-4 tasks call CreateOffer / CreateAnswer on one real PeerConnection;
// every lock and atomic site of peerconnection.go and sdp.go is a scheduling point (so the
// origin update and whatever serialises it are interleaved by the seeded scheduler). A single
// task gives the sequential histories (several creates before any SetLocalDescription, creates
// around a complete exchange).

import (
	"encoding/json"
	"fmt"
	"strings"
	"sync"
	"testing"
	"time"

	"verifsim/simrt"
)

type c11Case struct {
	Setup     string         `json:"setup"` // fresh | remote-offer | after-exchange
	Tasks     [][]string     `json:"tasks"` // per task: "offer" | "answer"
	SchedSeed uint64         `json:"sched_seed"`
	Strat     simrt.Strategy `json:"strat"`
	GenSeed   uint64         `json:"gen_seed"`
	// Stops: the connection owns this many extra transceivers and one more task stops them one by
	// one while the Create* calls run (Stop does not take the connection's lock: an offer that
	// finds its transceivers changed under it is recomputed)
	Stops int `json:"stops,omitempty"`
}

func c11Gen(seed uint64, idx, total int, tier string) any {
	r := vfNewRand(seed, "c11")
	c := &c11Case{Setup: vfPick(r, []string{"fresh", "fresh", "remote-offer", "remote-offer", "after-exchange"}), SchedSeed: r.U64(), Strat: vfGenStrategy(r), GenSeed: r.U64()}
	nt := r.Range(1, 4)
	for t := 0; t < nt; t++ {
		var ops []string
		for i := r.Range(1, 3); i > 0; i-- {
			if c.Setup == "remote-offer" && r.Bool(0.5) {
				ops = append(ops, "answer")
			} else {
				ops = append(ops, "offer")
			}
			if nt == 1 && r.Bool(0.4) {
				// (sequential histories only: C11 quantifies over concurrent Create* calls, and two
				// overlapping SetLocalDescription calls are another matter, see DESIGN.md 11.5)
				ops = append(ops, "setlocal") // apply the most recent description that fits the state
			}
		}
		if nt == 1 && c.Setup == "remote-offer" && r.Bool(0.4) {
			// the answerer applies a provisional answer first, then creates the final one
			ops = append(ops, "answer", "pranswer", "answer")
			if r.Bool(0.5) {
				ops = append(ops, "setlocal", "offer")
			}
		}
		if nt == 1 && r.Bool(0.5) {
			ops = append(ops, "offer", "offer")
		}
		c.Tasks = append(c.Tasks, ops)
	}
	if nt > 1 || r.Bool(0.5) {
		c.Stops = vfPick(r, []int{0, 0, 2, 3})
	}
	return c
}

type c11Call struct {
	task, call, ret int
	kind            string
	sessID          string
	ver             uint64
	err             string
}

func c11Run(t *testing.T, cj []byte, res *vfResult) {
	var c c11Case
	if err := json.Unmarshal(cj, &c); err != nil {
		res.Verdict, res.Detail = "error", err.Error()
		return
	}
	var mu sync.Mutex
	seq := 0
	tick := func() int { mu.Lock(); defer mu.Unlock(); seq++; return seq }
	var calls []*c11Call
	var created []SessionDescription
	var trace []simrt.Step
	outcome := ""
	var unfinished []string
	preempts := 0
	vfBubble(t, func(t *testing.T) {
		nw, err := vfNewNetSim(c.GenSeed, vfNetCfg{})
		if err != nil {
			res.Verdict, res.Detail = "error", err.Error()
			return
		}
		hn, _ := nw.addHost("10.0.1.2") // never a real socket inside the bubble
		_ = nw.Start()
		defer nw.Stop()
		p, err := vfNewPeer("A", hn)
		if err != nil {
			res.Verdict, res.Detail = "error", err.Error()
			return
		}
		pc := p.pc
		defer func() { _ = pc.Close() }()
		if _, err = pc.CreateDataChannel("d", nil); err != nil {
			res.Verdict, res.Detail = "error", err.Error()
			return
		}
		var extra []*RTPTransceiver
		for i := 0; i < c.Stops && i < 4; i++ {
			if tr, e := pc.AddTransceiverFromKind([]RTPCodecType{RTPCodecTypeVideo, RTPCodecTypeAudio}[i%2], RTPTransceiverInit{Direction: RTPTransceiverDirectionRecvonly}); e == nil {
				extra = append(extra, tr)
			}
		}
		fs := sgNewForeignSession(vfNewRand(c.GenSeed, "fs"))
		switch c.Setup {
		case "remote-offer":
			sdp := sgForeignOffer(vfNewRand(c.GenSeed, "fo"), 0, "", fs)
			if err = pc.SetRemoteDescription(SessionDescription{Type: SDPTypeOffer, SDP: sdp}); err != nil {
				res.Verdict, res.Detail = "error", "setup SetRemoteDescription: "+err.Error()
				return
			}
		case "after-exchange":
			off, err := pc.CreateOffer(nil)
			if err == nil {
				err = pc.SetLocalDescription(off)
			}
			if err == nil {
				ans := sgForeignAnswer(vfNewRand(c.GenSeed, "fa"), off.SDP, 0, fs)
				err = pc.SetRemoteDescription(SessionDescription{Type: SDPTypeAnswer, SDP: ans})
			}
			if err != nil {
				res.Verdict, res.Detail = "error", "setup exchange: "+err.Error()
				return
			}
			po := vfParseSDP(off.SDP)
			calls = append(calls, &c11Call{task: -1, call: tick(), ret: tick(), kind: "offer", sessID: po.SessID, ver: po.SessVer})
		}
		s := simrt.NewSched(c.SchedSeed, c.Strat, "peerconnection.go", "sdp.go", "harness:")
		for ti, ops := range c.Tasks {
			ti, ops := ti, ops
			s.Go(fmt.Sprintf("t%d", ti), func() {
				for _, k := range ops {
					if k == "pranswer" {
						// the most recent answer, applied as a provisional one
						mu.Lock()
						var d *SessionDescription
						for i := len(created) - 1; i >= 0 && d == nil; i-- {
							if created[i].Type == SDPTypeAnswer {
								d = &created[i]
							}
						}
						mu.Unlock()
						if d != nil && pc.SignalingState() == SignalingStateHaveRemoteOffer {
							_ = pc.SetLocalDescription(SessionDescription{Type: SDPTypePranswer, SDP: d.SDP})
						}
						continue
					}
					if k == "setlocal" {
						want := SDPTypeOffer
						if st := pc.SignalingState(); st == SignalingStateHaveRemoteOffer || st == SignalingStateHaveLocalPranswer {
							want = SDPTypeAnswer
						}
						mu.Lock()
						var d *SessionDescription
						for i := len(created) - 1; i >= 0 && d == nil; i-- {
							if created[i].Type == want {
								d = &created[i]
							}
						}
						mu.Unlock()
						if d != nil {
							_ = pc.SetLocalDescription(*d)
						}
						continue
					}
					cl := &c11Call{task: ti, kind: k, call: tick()}
					var d SessionDescription
					var err error
					if k == "answer" {
						d, err = pc.CreateAnswer(nil)
					} else {
						d, err = pc.CreateOffer(nil)
					}
					cl.ret = tick()
					if err != nil {
						cl.err = err.Error()
					} else {
						pd := vfParseSDP(d.SDP)
						cl.sessID, cl.ver = pd.SessID, pd.SessVer
					}
					mu.Lock()
					if err == nil {
						created = append(created, d)
					}
					calls = append(calls, cl)
					mu.Unlock()
				}
			})
		}
		if len(extra) > 0 {
			s.Go("stopper", func() {
				for _, tr := range extra {
					simrt.Yield("harness:stop:1")
					_ = tr.Stop()
					simrt.Yield("harness:stop:2")
				}
			})
		}
		outcome = s.Run(30000, time.Millisecond, 5)
		unfinished = s.Unfinished()
		trace = append(trace, s.Trace...)
		preempts = s.Preempts
		s.StopIf(outcome == "done")
		vfSettle(time.Millisecond)
	})
	var lines []string
	// (session ids are random and versions start at the fake clock: the history shows them normalised)
	idName := map[string]string{}
	var minVer uint64
	for _, cl := range calls {
		if cl.err == "" && (minVer == 0 || cl.ver < minVer) {
			minVer = cl.ver
		}
	}
	for _, cl := range calls {
		if _, ok := idName[cl.sessID]; !ok && cl.err == "" {
			idName[cl.sessID] = fmt.Sprintf("id%d", len(idName))
		}
		lines = append(lines, fmt.Sprintf("[%d,%d] t%d %s -> %s ver=+%d err=%q", cl.call, cl.ret, cl.task, cl.kind, idName[cl.sessID], cl.ver-minVer, cl.err))
	}
	res.Steps = len(trace)
	res.stat("preemptions", int64(preempts))
	sched := make([]string, 0, len(trace))
	for _, st := range trace {
		sched = append(sched, fmt.Sprintf("%d@%s", st.Task, st.Site))
	}
	res.Log = append(lines, sched...)
	res.Sig = vfSig(res.Log)
	if outcome != "done" {
		res.violate("create-call-did-not-return", fmt.Sprintf("outcome %s: %s", outcome, strings.Join(unfinished, "; ")))
		vfKeepSchedule(res, &c.Strat, trace, &c)
		return
	}
	okCalls := 0
	for i, a := range calls {
		if a.err != "" {
			continue
		}
		okCalls++
		for j, b := range calls {
			if i >= j || b.err != "" {
				continue
			}
			if a.sessID != b.sessID {
				res.violate("session-id-differs-between-descriptions", fmt.Sprintf("%s (task %d) has o= session id %s, %s (task %d) has %s", a.kind, a.task, a.sessID, b.kind, b.task, b.sessID))
			}
			if a.ver == b.ver {
				res.violate("session-version-reused", fmt.Sprintf("two generated descriptions carry session version %d (calls [%d,%d] and [%d,%d])", a.ver, a.call, a.ret, b.call, b.ret))
			}
			x, y := a, b
			if y.ret < x.call {
				x, y = y, x
			}
			if x.ret < y.call && y.ver <= x.ver {
				res.violate("session-version-not-increasing", fmt.Sprintf("call [%d,%d] returned version %d, the later call [%d,%d] returned version %d", x.call, x.ret, x.ver, y.call, y.ret, y.ver))
			}
		}
	}
	if okCalls >= 2 && (preempts > 0 || len(c.Tasks) == 1) {
		res.Nontrivial = res.Sig
	}
	vfKeepSchedule(res, &c.Strat, trace, &c)
}

func init() {
	vfRegister(&vfProp{
		ID: "C11", Level: "exploration", ReplayClass: "decision-exact", // transports started by the setup run free: a few percent of seeds diverge
		Rule:        "case = one real PeerConnection (fresh, or holding a foreign remote offer, or after a completed exchange) on which 1-4 tasks each call CreateOffer/CreateAnswer 1-3 times (sequential histories also apply descriptions, incl. a provisional answer before the final one; one more task may stop transceivers meanwhile, which makes CreateOffer recompute); the seeded cooperative scheduler picks the next task at every lock/atomic site of peerconnection.go and sdp.go; oracle = one session id, pairwise distinct versions, and a call that started after another returned carries a larger version; non-trivial = >=2 successful creates and (>=1 preemption or a single-task sequential history), distinct = hash of (calls, schedule)",
		Real:        []string{"PeerConnection.CreateOffer/CreateAnswer, generateMatchedSDP/generateUnmatchedSDP, updateSDPOrigin (instrumented)", "pion/sdp"},
		Stub:        []string{"no network; the remote description, where needed, comes from the foreign SDP generator"},
		Assumptions: []string{"'strictly greater than every earlier one' is read for overlapping calls as: distinct versions, and real-time order respected"},
		Shrink:      []string{"tasks", "strat.script"},
		Gen:         c11Gen, Run: c11Run,
	})
}
